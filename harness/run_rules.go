package main

import (
	"github.com/kstenerud/go-concise-encoding/ce"
	"reflect"
	"fmt"
	"math/big"
	"strings"

	"github.com/kstenerud/go-concise-encoding/ce/events"
	"github.com/kstenerud/go-concise-encoding/configuration"
	"github.com/kstenerud/go-concise-encoding/rules"
)

func init() {
	runners["C10"] = runC10
}

// order matters: first match wins
var rulesErrTable = [][2]string{
	{"runtime error", "RUNTIME"},
	{"array type", "ARRTYPE"},
	{"not allowed in the array API", "API"},
	{"not allowed in the custom type API", "API"},
	{"is not allowed while processing", "STRUCT"},
	{"container exceeds expected object count", "STRUCT"},
	{"objects but expected object count", "STRUCT"},
	{"Too many end container calls", "STRUCT"},
	{"record types are not allowed here", "STRUCT"},
	{"no such record type", "STRUCT"},
	{"expected version", "VERSION"},
	{"exceeded max container depth", "LIMIT:depth"},
	{"exceeded max object count", "LIMIT:objects"},
	{"exceeds maximum of", "LIMIT:array"},
	{"is greater than the maximum", "LIMIT:array"},
	{"identifier is too long", "LIMIT:id"},
	{"too many marked objects", "LIMIT:refs"},
	{"already exists in this container", "DUPKEY"},
	{"record type ID", "DUPRT"},
	{"marker ID", "MARKER"},
	{"not valid UTF-8", "UTF8"},
	{"incomplete UTF-8", "UTF8"},
	{"expected array chunk to have", "CHUNK"},
	{"elements of", "BYTECOUNT"},
	{"identifier cannot be empty", "ID"},
	{"identifier contains invalid characters", "ID"},
	{"cannot accept type", "MARKER"},
	{"is not a valid type to be referenced", "MARKER"},
	{"Forward local references", "MARKER"},
	{"comment", "COMMENT"},
	{"not a valid media type", "MEDIATYPE"},
	{"Invalid month", "TIME"}, {"Invalid day", "TIME"}, {"Year cannot be 0", "TIME"}, {"Invalid hour", "TIME"}, {"Invalid minute", "TIME"},
	{"Invalid second", "TIME"}, {"Invalid nanosecond", "TIME"}, {"Invalid longitude", "TIME"}, {"Invalid latitude", "TIME"}, {"Invalid UTC offset", "TIME"},
	{"Time zone is specified", "TIME"}, {"Area/location time zones", "TIME"}, {"not a valid time zone", "TIME"},
}

type ruleCfg struct {
	depth, objects, array, id, refs uint64
}

func defaultRuleCfg() ruleCfg {
	c := configuration.New()
	return ruleCfg{c.Rules.MaxContainerDepth, c.Rules.MaxObjectCount, c.Rules.MaxArraySizeBytes, c.Rules.MaxIdentifierLength, c.Rules.MaxLocalReferenceCount}
}

func (c ruleCfg) text() string {
	return fmt.Sprintf("%d,%d,%d,%d,%d", c.depth, c.objects, c.array, c.id, c.refs)
}

func (c ruleCfg) config() *configuration.Configuration {
	cfg := configuration.New()
	cfg.Rules.MaxContainerDepth = c.depth
	cfg.Rules.MaxObjectCount = c.objects
	cfg.Rules.MaxArraySizeBytes = c.array
	cfg.Rules.MaxIdentifierLength = c.id
	cfg.Rules.MaxLocalReferenceCount = c.refs
	return cfg
}

// runRules drives the real validator; returns the verdict text and the forwarded events.
func runRules(evs []Event, cfg *configuration.Configuration) (string, []Event) {
	rec := &Recorder{}
	r := rules.NewRules(rec, cfg)
	n, err := playTo(evs, r)
	if err != nil {
		return fmt.Sprintf("REJ@%d:%s", n, errClass(err, rulesErrTable)), rec.Evs
	}
	// accepted = the end-of-document event was accepted last
	if len(evs) > 0 && evs[len(evs)-1].K == "ed" {
		return "ACC", rec.Evs
	}
	return "OPEN", rec.Evs
}

func allGenCfg() GenCfg {
	return GenCfg{MaxDepth: 5, Budget: 25, EmptyData: true}
}

var mutationPool = []string{"n", "t", "pi:5", "ni:7", "fl:3ff8000000000000", "nan:0", "l", "m", "e", "nd", "end", "end", "pad", "cm:0:41",
	"s:str:6b", "a:str:1:6b", "a:u8:2:0102", "ab:str", "ab:u16", "ac:1:0", "ac:2:1", "ad:41", "ad:c3", "mk:6d31", "ref:6d31", "rt:7274", "r:7274",
	"bd", "ed", "v:0", "v:1", "uid:000102030405060708090a0b0c0d0e0f", "s:rid:61", "cb:1:00", "ct:1:41", "md:612f62:00", "mb:612f62", "cbg:cbin:1", "bi:nil", "s:str:ff", "a:u16:2:0102",
	// contents the text format cannot spell: media types, times, area/location names
	"md:612062:00", "md:312f78:00", "mb:612f", "mb:61", "md:612f622f63:00", "md:74657874c3a92f78:00", "md:612d2b2e2f7e7b7d:0102",
	"tm:0:2020:13:1:0:0:0:0:u", "tm:0:0:1:1:0:0:0:0:u", "tm:0:2020:2:30:0:0:0:0:u", "tm:0:2020:2:29:0:0:0:0:u", "tm:1:0:0:0:24:0:0:0:z", "tm:1:0:0:0:23:59:60:999999999:z",
	"tm:1:0:0:0:1:60:0:0:z", "tm:1:0:0:0:1:1:61:0:z", "tm:1:0:0:0:1:1:1:1000000000:z", "tm:2:2020:2:29:1:1:1:1:g.9001.0", "tm:2:2020:2:29:1:1:1:1:g.-9000.18000",
	"tm:2:2020:2:29:1:1:1:1:g.0.-18001", "tm:1:0:0:0:1:1:1:1:o.1440", "tm:1:0:0:0:1:1:1:1:o.-1439", "tm:1:0:0:0:1:1:1:1:a.6c6f77", "tm:1:0:0:0:1:1:1:1:a.452f42",
	"tm:1:0:0:0:1:1:1:1:a.4520", "tm:1:0:0:0:1:1:1:1:a.45c3a9", "tm:1:0:0:0:1:1:1:1:a."}

func mutate(rng *Rng, evs []Event) ([]Event, string) {
	out := make([]Event, len(evs))
	copy(out, evs)
	if len(out) < 3 {
		return out, "none"
	}
	i := 2 + rng.Intn(len(out)-2)
	if rng.P(1, 9) {
		// a comment whose text may or may not be spellable (line breaks, delimiters, nesting, bad UTF-8)
		pool := []string{"ok", "a\nb", "a\rb", "x*/y", "/*x", "/*x*/", "a/*b/*c*/d*/e", "ends/", "/**/", "/*/", "*/", "\xff", "é/", "", "*", "//", "a/* */ /"}
		c := Event{K: "cm", B: rng.P(1, 2), D: []byte(pool[rng.Intn(len(pool))])}
		ins := append([]Event{}, out[:i]...)
		ins = append(ins, c)
		return append(ins, out[i:]...), "comment"
	}
	if rng.P(1, 12) {
		// a media object whose type may or may not be spellable
		mt := randAnyMediaType(rng)
		e := Event{K: "md", D2: []byte(mt), D: []byte{1, 2}}
		if out[i].K == "md" || out[i].K == "mb" {
			out[i].D2 = []byte(mt)
			return out, "media-type"
		}
		ins := append([]Event{}, out[:i]...)
		ins = append(ins, e)
		return append(ins, out[i:]...), "media-type"
	}
	switch rng.Intn(8) {
	case 0:
		return append(out[:i], out[i+1:]...), "delete"
	case 1:
		dup := append([]Event{}, out[:i+1]...)
		dup = append(dup, out[i])
		return append(dup, out[i+1:]...), "duplicate"
	case 2:
		if i+1 < len(out) {
			out[i], out[i+1] = out[i+1], out[i]
		}
		return out, "swap"
	case 3, 4:
		e, _ := parseEvent(mutationPool[rng.Intn(len(mutationPool))])
		out[i] = e
		return out, "replace"
	case 5:
		e, _ := parseEvent(mutationPool[rng.Intn(len(mutationPool))])
		ins := append([]Event{}, out[:i]...)
		ins = append(ins, e)
		return append(ins, out[i:]...), "insert"
	case 6:
		// tweak a number / id / data of the event
		e := out[i]
		switch e.K {
		case "ac":
			e.N += uint64(rng.Intn(3)) - 1
		case "a":
			e.N++
		case "mk", "ref", "r", "rt":
			if rng.P(1, 2) && len(e.D) > 0 {
				e.D = append(cloneBytes(e.D), 'x')
			} else {
				e.D = []byte{}
			}
		case "ad", "s":
			if len(e.D) > 0 {
				d := cloneBytes(e.D)
				d[rng.Intn(len(d))] ^= 0x80
				e.D = d
			}
		case "v":
			e.N = uint64(rng.Intn(3))
		default:
			e2, _ := parseEvent(mutationPool[rng.Intn(len(mutationPool))])
			e = e2
		}
		out[i] = e
		return out, "tweak"
	default:
		// copy an event from elsewhere (e.g. reuse a marker id, repeat a key)
		j := 2 + rng.Intn(len(out)-2)
		out[i] = out[j]
		return out, "copy"
	}
}

// C10: the validator accepts exactly the structurally well-formed documents.
func runC10(r *Run) {
	rc := defaultRuleCfg()
	cfg := rc.config()
	r.each(func(idx int, rng *Rng) {
		g := NewGen(rng, allGenCfg())
		evs := g.Doc()
		mode := "valid"
		switch idx % 4 {
		case 1, 2:
			evs, mode = mutate(rng, evs)
		case 3:
			evs, _ = mutate(rng, evs)
			evs, mode = mutate(rng, evs)
			mode = "2x" + mode
		}
		id := fmt.Sprintf("%d", idx)
		text := EventsText(evs)
		verdict, fwd := runRules(evs, cfg)
		r.out.Count("mode:" + mode)
		r.out.Count("verdict:" + strings.SplitN(strings.SplitN(verdict, "@", 2)[0], ":", 2)[0])
		if strings.HasPrefix(verdict, "REJ") {
			r.out.Count("class:" + verdict[strings.Index(verdict, ":")+1:])
		}
		r.out.Case(text, len(evs) > 4)
		r.out.Sample(mode + ": " + text + " => " + verdict)
		if idx%4 == 0 && verdict != "ACC" {
			r.out.Finding("C10", "valid-rejected:"+verdict[strings.Index(verdict, ":")+1:], "a well-formed document (by construction) is rejected: "+verdict, text)
		}
		r.out.Line("corr", id, "RULES", []string{rc.text(), text}, verdict+" "+EventsText(fwd))
		r.out.Line("prop", id, "WF.REL", []string{rc.text(), text, verdict}, "1")
	})
	if r.Shard == 0 && r.Only < 0 {
		depth := 4
		if r.Tier == "thorough" {
			depth = 6
		}
		exhaustiveRules(r, rc, depth)
	}
}

var abstractAlphabet = []string{"n", "t", "pi:1", "fl:3ff8000000000000", "l", "m", "e", "nd", "end", "pad", "cm:0:41",
	"s:str:6b", "ab:str", "ac:1:0", "ac:1:1", "ad:41", "mk:61", "ref:61", "rt:74", "r:74", "ed", "s:rid:61"}

// exhaustiveRules: all sequences bd v:0 <≤depth events over the abstract alphabet>, DFS with
// prefix pruning (a rejected prefix is not extended).
func exhaustiveRules(r *Run, rc ruleCfg, depth int) {
	cfg := rc.config()
	alpha := make([]Event, len(abstractAlphabet))
	for i, a := range abstractAlphabet {
		alpha[i], _ = parseEvent(a)
	}
	prefix := []Event{{K: "bd"}, {K: "v"}}
	n := 0
	var dfs func(d int)
	dfs = func(d int) {
		for _, a := range alpha {
			seq := append(append([]Event{}, prefix...), a)
			verdict, fwd := runRules(seq, cfg)
			n++
			text := EventsText(seq)
			id := fmt.Sprintf("x%d", n)
			if verdict == "OPEN" {
				// still viable: the model must agree (no rejection so far)
				r.out.Line("corr", id, "RULES", []string{rc.text(), text}, verdict+" "+EventsText(fwd))
				if d+1 < depth {
					prefix = append(prefix, a)
					dfs(d + 1)
					prefix = prefix[:len(prefix)-1]
				}
			} else {
				r.out.Line("corr", id, "RULES", []string{rc.text(), text}, verdict+" "+EventsText(fwd))
				if a.K == "ed" || strings.HasPrefix(verdict, "REJ") {
					// a complete or rejected sequence: also compare with the grammar — but the grammar
					// judges whole documents, so close rejected prefixes with nothing (index must match)
					if a.K == "ed" {
						r.out.Line("prop", id, "WF.REL", []string{rc.text(), text, verdict}, "1")
					}
				}
			}
		}
	}
	dfs(0)
	r.out.Add("exhaustive-sequences", n)
}

var _ = big.NewInt
var _ = events.ArrayTypeBit

// ---------------------------------------------------------------------------------------
// C15: the validator passes accepted events through unchanged.

func init() {
	runners["C15"] = runC15
	runners["C11"] = runC11
	runners["C12"] = runC12
	runners["C13"] = runC13
	runners["C14"] = runC14
}

func runC15(r *Run) {
	rc := defaultRuleCfg()
	cfg := rc.config()
	r.each(func(idx int, rng *Rng) {
		gc := allGenCfg()
		g := NewGen(rng, gc)
		evs := g.Doc()
		if idx%5 == 4 {
			evs, _ = mutate(rng, evs)
		}
		id := fmt.Sprintf("%d", idx)
		text := EventsText(evs)
		verdict, fwd := runRules(evs, cfg)
		for k, v := range g.Stats {
			r.out.Add("ev:"+k, v)
		}
		r.out.Case(text, len(evs) > 4)
		r.out.Sample(text)
		// correspondence with the model (verdict + forwarded events)
		r.out.Line("corr", id, "RULES", []string{rc.text(), text}, verdict+" "+EventsText(fwd))
		// property oracle: what was forwarded is exactly the accepted prefix, event by event,
		// up to the three data-preserving rewrites the property allows
		n := len(evs)
		if strings.HasPrefix(verdict, "REJ@") {
			fmt.Sscanf(verdict[4:], "%d", &n)
		}
		r.out.Line("prop", id, "FWD.EQ", []string{EventsText(evs[:n]), EventsText(fwd)}, "1")
	})
}

// ---------------------------------------------------------------------------------------
// C11: array validation ignores how the data is split.

var c11Types = []events.ArrayType{events.ArrayTypeString, events.ArrayTypeResourceID, events.ArrayTypeReferenceRemote,
	events.ArrayTypeCustomText, events.ArrayTypeCustomBinary, events.ArrayTypeMedia,
	events.ArrayTypeBit, events.ArrayTypeUint8, events.ArrayTypeUint16, events.ArrayTypeUint32, events.ArrayTypeUint64,
	events.ArrayTypeInt8, events.ArrayTypeInt16, events.ArrayTypeInt32, events.ArrayTypeInt64, events.ArrayTypeFloat16,
	events.ArrayTypeFloat32, events.ArrayTypeFloat64, events.ArrayTypeUID}

func beginEvent(t events.ArrayType) Event {
	switch t {
	case events.ArrayTypeCustomBinary, events.ArrayTypeCustomText:
		return Event{K: "cbg", AT: t, N: 1}
	case events.ArrayTypeMedia:
		return Event{K: "mb", D2: []byte("a/b")}
	}
	return Event{K: "ab", AT: t}
}

func isTextType(t events.ArrayType) bool {
	return t == events.ArrayTypeString || t == events.ArrayTypeResourceID || t == events.ArrayTypeCustomText
}

// splitData splits d into data events at the given cut offsets.
func splitData(d []byte, cuts []int) []Event {
	var out []Event
	last := 0
	for _, c := range cuts {
		out = append(out, Event{K: "ad", D: d[last:c]})
		last = c
	}
	out = append(out, Event{K: "ad", D: d[last:]})
	return out
}

func runC11(r *Run) {
	rc := defaultRuleCfg()
	cfg := rc.config()
	r.each(func(idx int, rng *Rng) {
		t := c11Types[rng.Intn(len(c11Types))]
		eb := t.ElementSize()
		g := NewGen(rng, GenCfg{})
		// contents per chunk
		nchunks := 1 + rng.Small(3)
		type chunk struct {
			count int
			data  []byte
			more  bool
		}
		var chunks []chunk
		for i := 0; i < nchunks; i++ {
			var c chunk
			c.more = i+1 < nchunks
			if isTextType(t) || t == events.ArrayTypeReferenceRemote {
				c.data = g.text(rng.Intn(6))
				if rng.P(1, 3) && !c.more == false {
					c.data = nil
				}
				c.count = len(c.data)
			} else if eb == 1 {
				c.count = rng.Intn(20)
				c.data = rng.Bytes((c.count + 7) / 8)
			} else {
				c.count = rng.Intn(5)
				c.data = rng.Bytes(c.count * eb / 8)
			}
			chunks = append(chunks, c)
		}
		// defects (half of the cases)
		defect := "none"
		if idx%2 == 1 {
			ci := rng.Intn(len(chunks))
			switch rng.Intn(7) {
			case 0:
				if len(chunks[ci].data) > 0 {
					chunks[ci].data = chunks[ci].data[:len(chunks[ci].data)-1]
					defect = "short-data"
				}
			case 1:
				chunks[ci].data = append(cloneBytes(chunks[ci].data), 0x41)
				defect = "long-data"
			case 2:
				chunks[len(chunks)-1].more = true
				defect = "last-not-final"
			case 3:
				if len(chunks[ci].data) > 0 {
					d := cloneBytes(chunks[ci].data)
					d[rng.Intn(len(d))] = []byte{0xff, 0xc0, 0x80, 0xed, 0xf8}[rng.Intn(5)]
					chunks[ci].data = d
					defect = "bad-byte"
				}
			case 4:
				// chunk boundary inside a character: move the first byte of a multi-byte char to the previous chunk
				if ci+1 < len(chunks) && len(chunks[ci+1].data) > 1 && chunks[ci+1].data[0] >= 0xc0 {
					chunks[ci].data = append(cloneBytes(chunks[ci].data), chunks[ci+1].data[0])
					chunks[ci].count++
					chunks[ci+1].data = chunks[ci+1].data[1:]
					chunks[ci+1].count--
					defect = "chunk-splits-char"
				}
			case 5:
				// truncated character at the very end
				chunks[ci].data = append(cloneBytes(chunks[ci].data), []byte{0xe6, 0x97}[:1+rng.Intn(2)]...)
				chunks[ci].count = len(chunks[ci].data)
				if !isTextType(t) {
					chunks[ci].count = 0
				}
				defect = "truncated-char"
			case 6:
				chunks[ci].count++
				defect = "count+1"
			}
		}
		// several data splittings of the same chunking
		verdicts := map[string]string{}
		nsplit := 4
		for sv := 0; sv < nsplit; sv++ {
			evs := []Event{{K: "bd"}, {K: "v"}, beginEvent(t)}
			for _, c := range chunks {
				evs = append(evs, Event{K: "ac", N: uint64(c.count), B: c.more})
				var cuts []int
				switch sv {
				case 0: // one data event (none when empty)
				case 1: // one byte per event
					for i := 1; i < len(c.data); i++ {
						cuts = append(cuts, i)
					}
				default:
					for i := 1; i < len(c.data); i++ {
						if rng.P(1, 3) {
							cuts = append(cuts, i)
						}
					}
				}
				if len(c.data) > 0 {
					if sv == 3 && rng.P(1, 2) {
						evs = append(evs, Event{K: "ad", D: []byte{}}) // zero-length data event inside the chunk
					}
					evs = append(evs, splitData(c.data, cuts)...)
				}
			}
			evs = append(evs, Event{K: "ed"})
			text := EventsText(evs)
			verdict, fwd := runRules(evs, cfg)
			acc := "REJ"
			if verdict == "ACC" {
				acc = "ACC"
			}
			verdicts[acc] = text
			id := fmt.Sprintf("%d.%d", idx, sv)
			r.out.Count("type:" + arrName(t))
			r.out.Count("defect:" + defect)
			r.out.Count("verdict:" + acc)
			r.out.Case(text, true)
			if sv == 2 {
				r.out.Sample(defect + ": " + text + " => " + verdict)
			}
			r.out.Line("corr", id, "RULES", []string{rc.text(), text}, verdict+" "+EventsText(fwd))
			// independent array specification (accept iff data matches the declared chunk lengths, the last
			// chunk is final, and text chunks are valid UTF-8 ending on a character boundary)
			r.out.Line("prop", id, "WF.REL", []string{rc.text(), text, verdict}, "1")
		}
		if len(verdicts) > 1 {
			r.out.Finding("C11", "split-dependent:"+arrName(t), "the verdict depends on how chunk data is divided among data events: accepted as ["+verdicts["ACC"]+"] rejected as ["+verdicts["REJ"]+"]", verdicts["REJ"])
		}
	})
}

// ---------------------------------------------------------------------------------------
// C12: duplicate map keys are rejected whatever encoding they use.

// intForms: every event form able to express the integer v.
func intForms(v *big.Int) []Event {
	var out []Event
	abs := new(big.Int).Abs(v)
	if v.Sign() >= 0 && abs.IsUint64() {
		out = append(out, Event{K: "pi", N: abs.Uint64()})
	}
	if v.Sign() <= 0 && abs.IsUint64() {
		out = append(out, Event{K: "ni", N: abs.Uint64()})
	}
	if v.IsInt64() {
		out = append(out, Event{K: "i", I: v.Int64()})
	}
	out = append(out, Event{K: "bi", Big: new(big.Int).Set(v)})
	return out
}

func stringForms(rng *Rng, t events.ArrayType, s []byte) [][]Event {
	forms := [][]Event{
		{{K: "a", AT: t, N: uint64(len(s)), D: s}},
		{{K: "s", AT: t, D: s}},
	}
	// chunked at a character boundary, data split anywhere
	starts := runeStarts(s)
	cut := starts[rng.Intn(len(starts))]
	ch := []Event{{K: "ab", AT: t}, {K: "ac", N: uint64(cut), B: true}}
	if cut > 0 {
		ch = append(ch, splitData(s[:cut], nil)...)
	}
	ch = append(ch, Event{K: "ac", N: uint64(len(s) - cut), B: false})
	if len(s)-cut > 0 {
		var cuts []int
		if len(s)-cut > 1 && rng.P(1, 2) {
			cuts = []int{1 + rng.Intn(len(s)-cut-1)}
		}
		ch = append(ch, splitData(s[cut:], cuts)...)
	}
	forms = append(forms, ch)
	return forms
}

type keyVal struct {
	denote string
	forms  [][]Event
}

func (g *Gen) c12Key(rng *Rng) keyVal {
	switch rng.Intn(10) {
	case 0:
		b := rng.P(1, 2)
		f := [][]Event{{{K: "b", B: b}}}
		if b {
			f = append(f, []Event{{K: "t"}})
		} else {
			f = append(f, []Event{{K: "f"}})
		}
		return keyVal{"bool:" + b01(b), f}
	case 1:
		u := rng.Bytes(16)
		if rng.P(1, 2) {
			u = make([]byte, 16)
			u[15] = byte(rng.Intn(3))
		}
		return keyVal{"uid:" + hx(u), [][]Event{{{K: "uid", D: u}}}}
	case 2:
		s := g.text(1 + rng.Intn(4))
		return keyVal{"rid:" + string(s), stringForms(rng, events.ArrayTypeResourceID, s)}
	case 3, 4:
		s := g.text(rng.Intn(4))
		if rng.P(1, 2) {
			s = []byte([]string{"", "a", "b", "ab", "é"}[rng.Intn(5)])
		}
		return keyVal{"str:" + string(s), stringForms(rng, events.ArrayTypeString, s)}
	case 5:
		t := g.time()
		return keyVal{"tm:" + timeText(t), [][]Event{{{K: "tm", T: t}}}}
	default:
		var v *big.Int
		switch rng.Intn(4) {
		case 0:
			v = big.NewInt(int64(rng.Intn(7)) - 3)
		case 1:
			v = new(big.Int).SetUint64(g.magnitude())
		case 2:
			v = new(big.Int).SetUint64([]uint64{1 << 63, 1<<63 - 1, 1<<63 + 1, 1<<64 - 1, 5, 100, 101}[rng.Intn(7)])
		default:
			v = new(big.Int).Lsh(big.NewInt(1), 64)
			v.Add(v, big.NewInt(int64(rng.Intn(3))))
		}
		if rng.P(1, 2) {
			v.Neg(v)
		}
		var f [][]Event
		for _, e := range intForms(v) {
			f = append(f, []Event{e})
		}
		return keyVal{"int:" + v.String(), f}
	}
}

func runC12(r *Run) {
	rc := defaultRuleCfg()
	cfg := rc.config()
	r.each(func(idx int, rng *Rng) {
		g := NewGen(rng, GenCfg{})
		n := 2 + rng.Intn(4)
		var keys []keyVal
		for i := 0; i < n; i++ {
			if i > 0 && rng.P(1, 3) {
				keys = append(keys, keys[rng.Intn(len(keys))]) // deliberate collision, possibly in another form
			} else {
				keys = append(keys, g.c12Key(rng))
			}
		}
		inRecordType := idx%4 == 3
		var evs []Event
		evs = append(evs, Event{K: "bd"}, Event{K: "v"})
		if inRecordType {
			evs = append(evs, Event{K: "rt", D: []byte("r")})
		} else {
			evs = append(evs, Event{K: "m"})
		}
		seen := map[string]bool{}
		dupAt := -1
		var denotes []string
		for i, k := range keys {
			form := k.forms[rng.Intn(len(k.forms))]
			if !inRecordType && rng.P(1, 4) {
				// a marked key is still a key (seeded change C12B3 lost the resource-id-ness of a marked chunked key)
				evs = append(evs, Event{K: "mk", D: []byte(fmt.Sprintf("k%d", i))})
				r.out.Count("marked-key")
			}
			evs = append(evs, form...)
			if !inRecordType {
				evs = append(evs, Event{K: "n"})
			}
			if seen[k.denote] && dupAt < 0 {
				dupAt = i
			}
			seen[k.denote] = true
			denotes = append(denotes, k.denote)
		}
		evs = append(evs, Event{K: "end"})
		if inRecordType {
			evs = append(evs, Event{K: "n"})
		}
		evs = append(evs, Event{K: "ed"})
		text := EventsText(evs)
		verdict, fwd := runRules(evs, cfg)
		id := fmt.Sprintf("%d", idx)
		r.out.Case(text, true)
		r.out.Sample(text + " => " + verdict)
		if dupAt >= 0 {
			r.out.Count("with-duplicate")
		} else {
			r.out.Count("no-duplicate")
		}
		r.out.Line("corr", id, "RULES", []string{rc.text(), text}, verdict+" "+EventsText(fwd))
		// property oracle, decided on the Go side from the generator's own denotations
		isDup := strings.Contains(verdict, "DUPKEY")
		if dupAt >= 0 && !isDup {
			r.out.Finding("C12", "duplicate-accepted:"+strings.SplitN(denotes[dupAt], ":", 2)[0], "two keys denoting "+denotes[dupAt]+" are accepted in one container: "+verdict, text)
		}
		if dupAt < 0 && verdict != "ACC" {
			r.out.Finding("C12", "false-duplicate", "keys denoting different values are rejected: "+verdict, text)
		}
		// and by the Lean driver's independent `denote` on the event text
		r.out.Line("prop", id, "WF.REL", []string{rc.text(), text, verdict}, "1")
	})
}

// ---------------------------------------------------------------------------------------
// C13: markers and local references are consistent in every accepted document.

func runC13(r *Run) {
	rc := defaultRuleCfg()
	cfg := rc.config()
	r.each(func(idx int, rng *Rng) {
		gc := allGenCfg()
		gc.MarkerHeavy = true
		g := NewGen(rng, gc)
		evs := g.Doc()
		mode := "valid"
		if idx%3 != 0 {
			evs, mode = mutateMarkers(rng, evs)
		}
		if idx%4 == 1 {
			evs, mode = markerTemplate(rng), "template"
		}
		if idx%8 == 3 {
			c13BuildRefs(r, rng, cfg)
		}
		id := fmt.Sprintf("%d", idx)
		text := EventsText(evs)
		verdict, fwd := runRules(evs, cfg)
		r.out.Count("mode:" + mode)
		r.out.Count("verdict:" + strings.SplitN(verdict, "@", 2)[0])
		r.out.Add("markers", g.Stats["mk"])
		r.out.Add("refs", g.Stats["ref"])
		r.out.Case(text, g.Stats["mk"]+g.Stats["ref"] > 0)
		r.out.Sample(mode + ": " + text + " => " + verdict)
		if mode == "valid" && verdict != "ACC" {
			r.out.Finding("C13", "valid-rejected:"+verdict[strings.Index(verdict, ":")+1:], "a consistent marker/reference document is rejected: "+verdict, text)
		}
		r.out.Line("corr", id, "RULES", []string{rc.text(), text}, verdict+" "+EventsText(fwd))
		r.out.Line("prop", id, "WF.REL", []string{rc.text(), text, verdict}, "1")
	})
}

// markerTemplate: one identifier, referenced several times in value and key positions, before
// and after its marker, the marked object keyable or not - every order of the components.
func markerTemplate(rng *Rng) []Event {
	id := []byte("x")
	var comps [][]Event
	nV, nK := rng.Intn(3), rng.Intn(3)
	for i := 0; i < nV; i++ {
		comps = append(comps, []Event{{K: "ref", D: id}})
	}
	for i := 0; i < nK; i++ {
		comps = append(comps, []Event{{K: "m"}, {K: "ref", D: id}, {K: "i", I: int64(i)}, {K: "end"}})
	}
	var obj []Event
	switch rng.Intn(7) {
	case 0:
		obj = []Event{{K: "i", I: 100}}
	case 1:
		obj = []Event{{K: "s", AT: events.ArrayTypeString, D: []byte("str")}}
	case 2:
		obj = []Event{{K: "l"}, {K: "i", I: 1}, {K: "i", I: 2}, {K: "end"}}
	case 3:
		obj = []Event{{K: "m"}, {K: "end"}}
	case 4:
		obj = []Event{{K: "n"}}
	case 5:
		obj = []Event{{K: "fl", F: 1.5}}
	default:
		obj = []Event{{K: "a", AT: events.ArrayTypeUint8, N: 2, D: []byte{1, 2}}}
	}
	if rng.P(4, 5) {
		comps = append(comps, append([]Event{{K: "mk", D: id}}, obj...))
	}
	for i := len(comps) - 1; i > 0; i-- {
		k := rng.Intn(i + 1)
		comps[i], comps[k] = comps[k], comps[i]
	}
	out := []Event{{K: "bd"}, {K: "v"}, {K: "l"}}
	for _, c := range comps {
		out = append(out, c...)
	}
	return append(out, Event{K: "end"}, Event{K: "ed"})
}

// c13BuildRefs: "when such a document is built into Go values every reference is replaced by
// the marked value" - lists holding one marked integer and references to it before (forward)
// and after (backward) the marker, long enough for the destination slice to be reallocated.
func c13BuildRefs(r *Run, rng *Rng, cfg *configuration.Configuration) {
	n := 1 + rng.Intn(24)
	mpos := rng.Intn(n)
	marked := int64(1000 + rng.Intn(1000))
	evs := []Event{{K: "bd"}, {K: "v"}, {K: "l"}}
	want := make([]int64, n)
	isRef := make([]bool, n)
	for i := 0; i < n; i++ {
		switch {
		case i == mpos:
			evs = append(evs, Event{K: "mk", D: []byte("a")}, Event{K: "i", I: marked})
			want[i] = marked
		case rng.P(1, 3):
			evs = append(evs, Event{K: "ref", D: []byte("a")})
			want[i] = marked
			isRef[i] = true
		default:
			want[i] = int64(i)
			evs = append(evs, Event{K: "i", I: int64(i)})
		}
	}
	evs = append(evs, Event{K: "end"}, Event{K: "ed"})
	doc, err := cbeEncode(evs, cfg)
	if err != nil {
		return
	}
	for _, tmpl := range []interface{}{nil, []int64{}, []interface{}{}} {
		v, uerr, pan := safeCall(func() (interface{}, error) { return ce.UnmarshalFromCBEDocument(doc, tmpl, cfg) })
		name := fmt.Sprintf("%T", tmpl)
		r.out.Count("build-refs:" + name)
		if pan != nil || uerr != nil {
			r.out.Finding("C13", "build-refs-error:"+name, fmt.Sprintf("a list with references to a marked integer does not unmarshal into %s: %v %v", name, uerr, pan), EventsText(evs))
			continue
		}
		rv := reflect.ValueOf(v)
		ok := rv.Kind() == reflect.Slice && rv.Len() == n
		for i := 0; ok && i < n; i++ {
			el := rv.Index(i)
			for el.Kind() == reflect.Interface && !el.IsNil() {
				el = el.Elem()
			}
			x, isNum := numericRat(el)
			if !isNum || x.Cmp(new(big.Rat).SetInt64(want[i])) != 0 {
				ok = false
			}
		}
		if !ok {
			r.out.Finding("C13", "build-refs-wrong:"+name, fmt.Sprintf("references are not replaced by the marked value: got %s, want %v", trunc(dumpValue(v), 300), want), EventsText(evs))
		}
	}
}

// mutateMarkers: unknown / duplicate / type-mismatched identifiers, markers on markers etc.
func mutateMarkers(rng *Rng, evs []Event) ([]Event, string) {
	out := make([]Event, len(evs))
	copy(out, evs)
	var mks, refs []int
	for i, e := range out {
		if e.K == "mk" {
			mks = append(mks, i)
		}
		if e.K == "ref" {
			refs = append(refs, i)
		}
	}
	switch rng.Intn(9) {
	case 8:
		// a marker on something that cannot be marked: a remote reference or a record type, in every
		// delivery form (seeded change C13A3 dropped the check for the chunked form only)
		if len(mks) > 0 {
			i := mks[rng.Intn(len(mks))]
			// find the end of the marked object: replace a marked scalar only
			if i+1 < len(out) {
				switch out[i+1].K {
				case "n", "t", "f", "b", "pi", "ni", "i", "s", "a", "fl", "df", "uid", "tm":
					url := []byte("https://x.y/z")
					var repl []Event
					switch rng.Intn(3) {
					case 0:
						repl = []Event{{K: "s", AT: events.ArrayTypeReferenceRemote, D: url}}
					case 1:
						repl = []Event{{K: "a", AT: events.ArrayTypeReferenceRemote, N: uint64(len(url)), D: url}}
					default:
						repl = []Event{{K: "ab", AT: events.ArrayTypeReferenceRemote}, {K: "ac", N: 5, B: true}, {K: "ad", D: url[:5]},
							{K: "ac", N: uint64(len(url) - 5), B: false}, {K: "ad", D: url[5:]}}
					}
					ins := append([]Event{}, out[:i+1]...)
					ins = append(ins, repl...)
					return append(ins, out[i+2:]...), "marker-on-remote-ref"
				}
			}
		}
	case 0:
		if len(refs) > 0 {
			i := refs[rng.Intn(len(refs))]
			out[i].D = []byte("nosuchmarker")
			return out, "unknown-ref"
		}
	case 1:
		if len(mks) > 1 {
			i, j := mks[rng.Intn(len(mks))], mks[rng.Intn(len(mks))]
			out[i].D = out[j].D
			return out, "duplicate-marker"
		}
	case 2:
		if len(mks) > 0 {
			i := mks[rng.Intn(len(mks))]
			ins := append([]Event{}, out[:i]...)
			ins = append(ins, Event{K: "mk", D: []byte("mm")})
			return append(ins, out[i:]...), "marker-on-marker"
		}
	case 3:
		if len(refs) > 0 {
			i := refs[rng.Intn(len(refs))]
			ins := append([]Event{}, out[:i]...)
			ins = append(ins, Event{K: "mk", D: []byte("mr")})
			return append(ins, out[i:]...), "marker-on-ref"
		}
	case 4:
		if len(mks) > 0 {
			i := mks[rng.Intn(len(mks))]
			out[i].D = [][]byte{{}, []byte("a b"), []byte("a:b"), []byte("\xff"), []byte(strings.Repeat("x", 1001))}[rng.Intn(5)]
			return out, "bad-id"
		}
	case 5:
		if len(mks) > 0 {
			// delete a marker that may be referenced
			i := mks[rng.Intn(len(mks))]
			return append(out[:i], out[i+1:]...), "delete-marker"
		}
	case 6:
		// a key-position reference to a non-keyable object: map { &x:[...]  then $x: null }
		for i, e := range out {
			if e.K == "m" {
				ins := append([]Event{}, out[:i+1]...)
				ins = append(ins, Event{K: "s", AT: events.ArrayTypeString, D: []byte("k0")}, Event{K: "mk", D: []byte("nk")}, Event{K: "l"}, Event{K: "end"},
					Event{K: "ref", D: []byte("nk")}, Event{K: "n"})
				return append(ins, out[i+1:]...), "key-ref-nonkeyable"
			}
		}
	}
	return mutate(rng, out)
}

// ---------------------------------------------------------------------------------------
// C14: configured resource limits are enforced exactly (validator part).

func runC14(r *Run) {
	r.each(func(idx int, rng *Rng) {
		gc := allGenCfg()
		gc.Budget = 15
		g := NewGen(rng, gc)
		evs := g.Doc()
		text := EventsText(evs)
		u := measure(evs)
		base := ruleCfg{1000, 1000000, 1 << 30, 1000, 10000}
		r.out.Case(text, len(evs) > 4)
		r.out.Sample(fmt.Sprintf("usage depth=%d objects=%d array=%d id=%d markers=%d: %s", u.depth, u.objects, u.array, u.id, u.markers, text))
		r.out.Line("prop", fmt.Sprintf("%d.m", idx), "MEASURE", []string{text}, fmt.Sprintf("%d,%d,%d,%d,%d", u.depth, u.objects, u.array, u.id, u.markers))
		try := func(name string, rc ruleCfg, usage, limit uint64, zeroMeansNone bool) {
			cfg := rc.config()
			verdict, fwd := runRules(evs, cfg)
			id := fmt.Sprintf("%d.%s.%d", idx, name, limit)
			r.out.Line("corr", id, "RULES", []string{rc.text(), text}, verdict+" "+EventsText(fwd))
			over := usage > limit && !(zeroMeansNone && limit == 0)
			r.out.Count("limit:" + name)
			if over && verdict == "ACC" {
				r.out.Finding("C14", "over-limit-accepted:"+name, fmt.Sprintf("usage %d exceeds %s limit %d but the document is accepted", usage, name, limit), rc.text()+" "+text)
			}
			if !over && verdict != "ACC" {
				r.out.Finding("C14", "within-limit-rejected:"+name, fmt.Sprintf("usage %d is within %s limit %d but the document is rejected: %s", usage, name, limit, verdict), rc.text()+" "+text)
			}
			if over && !strings.Contains(verdict, "LIMIT:") {
				r.out.Count("over-limit-rejected-with-other-class")
			}
		}
		for _, d := range []int64{-1, 0, 1} {
			lim := func(u uint64) uint64 {
				v := int64(u) + d
				if v < 0 {
					v = 0
				}
				return uint64(v)
			}
			c := base
			c.depth = lim(u.depth)
			try("depth", c, u.depth, c.depth, false)
			// the same limit through the codecs: the CTE decoder applies the depth limit to the token
			// stream before parsing, the CBE decoder leaves it to the rules - the verdict must be the same
			for _, format := range []string{"cte", "cbe"} {
				dcfg := c.config()
				var doc []byte
				var eerr error
				if format == "cte" {
					doc, eerr = cteEncode(evs, configuration.New())
				} else {
					doc, eerr = cbeEncode(evs, configuration.New())
				}
				if eerr != nil {
					continue
				}
				var derr error
				if format == "cte" {
					_, derr = cteDecode(doc, dcfg, true)
				} else {
					_, derr = cbeDecode(doc, dcfg, true)
				}
				over := u.depth > c.depth
				r.out.Count("limit:depth-via-" + format)
				if over && derr == nil {
					r.out.Finding("C14", "over-limit-accepted:depth-via-"+format, fmt.Sprintf("depth %d exceeds the limit %d but the %s decoder with rules accepts the document", u.depth, c.depth, format), text)
				}
				if !over && derr != nil {
					r.out.Finding("C14", "within-limit-rejected:depth-via-"+format, fmt.Sprintf("depth %d is within the limit %d but the %s decoder with rules rejects the document: %v", u.depth, c.depth, format, derr), text+" doc "+trunc(hx(doc), 400))
				}
			}
			c = base
			c.objects = lim(u.objects)
			try("objects", c, u.objects, c.objects, false)
			c = base
			c.array = lim(u.array)
			if c.array > 0 {
				try("array", c, u.array, c.array, true)
			}
			c = base
			c.id = lim(u.id)
			if u.id > 0 {
				try("id", c, u.id, c.id, false)
			}
			c = base
			c.refs = lim(u.markers)
			try("markers", c, u.markers, c.refs, false)
		}
	})
}

type usage struct{ depth, objects, array, id, markers uint64 }

// measure: structural usage of a valid stream, computed independently of the validator:
// depth = deepest nesting of list/map/record/record type/edge/node; objects = every value, key,
// container, marker, reference and record type; array = largest array in bytes (declared
// chunk totals for chunked ones); id = longest identifier; markers = number of markers.
func measure(evs []Event) usage {
	var u usage
	var depth uint64
	var arr uint64
	inArr := false
	elemBits := 8
	for _, e := range evs {
		switch e.K {
		case "l", "m", "e", "nd", "r", "rt":
			depth++
			if depth > u.depth {
				u.depth = depth
			}
			u.objects++
		case "end":
			depth--
		case "bd", "ed", "v", "pad", "cm", "ad":
		case "ac":
			if elemBits == 1 {
				arr += (e.N + 7) / 8
			} else {
				arr += e.N * uint64(elemBits/8)
			}
			if arr > u.array {
				u.array = arr
			}
		case "ab", "mb", "cbg":
			u.objects++
			arr = 0
			inArr = true
			elemBits = 8
			if e.K == "ab" {
				elemBits = e.AT.ElementSize()
			}
		default:
			u.objects++
		}
		switch e.K {
		case "a", "s", "md", "cb", "ct":
			if uint64(len(e.D)) > u.array {
				u.array = uint64(len(e.D))
			}
		case "mk":
			u.markers++
		}
		switch e.K {
		case "mk", "ref", "r", "rt":
			if uint64(len(e.D)) > u.id {
				u.id = uint64(len(e.D))
			}
		}
	}
	_ = inArr
	return u
}
