package main

import (
	"fmt"
	"math/big"
	"strings"

	"github.com/kstenerud/go-concise-encoding/ce/events"
	"github.com/kstenerud/go-concise-encoding/configuration"
	"github.com/kstenerud/go-concise-encoding/rules"
)

func init() {
	runners["C10"] = runC10
}

// order matters: first match wins
var rulesErrTable = [][2]string{
	{"runtime error", "RUNTIME"},
	{"array type", "ARRTYPE"},
	{"not allowed in the array API", "API"},
	{"not allowed in the custom type API", "API"},
	{"is not allowed while processing", "STRUCT"},
	{"container exceeds expected object count", "STRUCT"},
	{"objects but expected object count", "STRUCT"},
	{"Too many end container calls", "STRUCT"},
	{"record types are not allowed here", "STRUCT"},
	{"no such record type", "STRUCT"},
	{"expected version", "VERSION"},
	{"exceeded max container depth", "LIMIT:depth"},
	{"exceeded max object count", "LIMIT:objects"},
	{"exceeds maximum of", "LIMIT:array"},
	{"is greater than the maximum", "LIMIT:array"},
	{"identifier is too long", "LIMIT:id"},
	{"too many marked objects", "LIMIT:refs"},
	{"already exists in this container", "DUPKEY"},
	{"record type ID", "DUPRT"},
	{"marker ID", "MARKER"},
	{"not valid UTF-8", "UTF8"},
	{"incomplete UTF-8", "UTF8"},
	{"expected array chunk to have", "CHUNK"},
	{"elements of", "BYTECOUNT"},
	{"identifier cannot be empty", "ID"},
	{"identifier contains invalid characters", "ID"},
	{"cannot accept type", "MARKER"},
	{"is not a valid type to be referenced", "MARKER"},
	{"Forward local references", "MARKER"},
}

type ruleCfg struct {
	depth, objects, array, id, refs uint64
}

func defaultRuleCfg() ruleCfg {
	c := configuration.New()
	return ruleCfg{c.Rules.MaxContainerDepth, c.Rules.MaxObjectCount, c.Rules.MaxArraySizeBytes, c.Rules.MaxIdentifierLength, c.Rules.MaxLocalReferenceCount}
}

func (c ruleCfg) text() string {
	return fmt.Sprintf("%d,%d,%d,%d,%d", c.depth, c.objects, c.array, c.id, c.refs)
}

func (c ruleCfg) config() *configuration.Configuration {
	cfg := configuration.New()
	cfg.Rules.MaxContainerDepth = c.depth
	cfg.Rules.MaxObjectCount = c.objects
	cfg.Rules.MaxArraySizeBytes = c.array
	cfg.Rules.MaxIdentifierLength = c.id
	cfg.Rules.MaxLocalReferenceCount = c.refs
	return cfg
}

// runRules drives the real validator; returns the verdict text and the forwarded events.
func runRules(evs []Event, cfg *configuration.Configuration) (string, []Event) {
	rec := &Recorder{}
	r := rules.NewRules(rec, cfg)
	n, err := playTo(evs, r)
	if err != nil {
		return fmt.Sprintf("REJ@%d:%s", n, errClass(err, rulesErrTable)), rec.Evs
	}
	// accepted = the end-of-document event was accepted last
	if len(evs) > 0 && evs[len(evs)-1].K == "ed" {
		return "ACC", rec.Evs
	}
	return "OPEN", rec.Evs
}

func allGenCfg() GenCfg {
	return GenCfg{MaxDepth: 5, Budget: 25}
}

var mutationPool = []string{"n", "t", "pi:5", "ni:7", "fl:3ff8000000000000", "nan:0", "l", "m", "e", "nd", "end", "end", "pad", "cm:0:41",
	"s:str:6b", "a:str:1:6b", "a:u8:2:0102", "ab:str", "ab:u16", "ac:1:0", "ac:2:1", "ad:41", "ad:c3", "mk:6d31", "ref:6d31", "rt:7274", "r:7274",
	"bd", "ed", "v:0", "v:1", "uid:000102030405060708090a0b0c0d0e0f", "s:rid:61", "cb:1:00", "ct:1:41", "md:612f62:00", "mb:612f62", "cbg:cbin:1", "bi:nil", "s:str:ff", "a:u16:2:0102"}

func mutate(rng *Rng, evs []Event) ([]Event, string) {
	out := make([]Event, len(evs))
	copy(out, evs)
	if len(out) < 3 {
		return out, "none"
	}
	i := 2 + rng.Intn(len(out)-2)
	switch rng.Intn(8) {
	case 0:
		return append(out[:i], out[i+1:]...), "delete"
	case 1:
		dup := append([]Event{}, out[:i+1]...)
		dup = append(dup, out[i])
		return append(dup, out[i+1:]...), "duplicate"
	case 2:
		if i+1 < len(out) {
			out[i], out[i+1] = out[i+1], out[i]
		}
		return out, "swap"
	case 3, 4:
		e, _ := parseEvent(mutationPool[rng.Intn(len(mutationPool))])
		out[i] = e
		return out, "replace"
	case 5:
		e, _ := parseEvent(mutationPool[rng.Intn(len(mutationPool))])
		ins := append([]Event{}, out[:i]...)
		ins = append(ins, e)
		return append(ins, out[i:]...), "insert"
	case 6:
		// tweak a number / id / data of the event
		e := out[i]
		switch e.K {
		case "ac":
			e.N += uint64(rng.Intn(3)) - 1
		case "a":
			e.N++
		case "mk", "ref", "r", "rt":
			if rng.P(1, 2) && len(e.D) > 0 {
				e.D = append(cloneBytes(e.D), 'x')
			} else {
				e.D = []byte{}
			}
		case "ad", "s":
			if len(e.D) > 0 {
				d := cloneBytes(e.D)
				d[rng.Intn(len(d))] ^= 0x80
				e.D = d
			}
		case "v":
			e.N = uint64(rng.Intn(3))
		default:
			e2, _ := parseEvent(mutationPool[rng.Intn(len(mutationPool))])
			e = e2
		}
		out[i] = e
		return out, "tweak"
	default:
		// copy an event from elsewhere (e.g. reuse a marker id, repeat a key)
		j := 2 + rng.Intn(len(out)-2)
		out[i] = out[j]
		return out, "copy"
	}
}

// C10: the validator accepts exactly the structurally well-formed documents.
func runC10(r *Run) {
	rc := defaultRuleCfg()
	cfg := rc.config()
	r.each(func(idx int, rng *Rng) {
		g := NewGen(rng, allGenCfg())
		evs := g.Doc()
		mode := "valid"
		switch idx % 4 {
		case 1, 2:
			evs, mode = mutate(rng, evs)
		case 3:
			evs, _ = mutate(rng, evs)
			evs, mode = mutate(rng, evs)
			mode = "2x" + mode
		}
		id := fmt.Sprintf("%d", idx)
		text := EventsText(evs)
		verdict, fwd := runRules(evs, cfg)
		r.out.Count("mode:" + mode)
		r.out.Count("verdict:" + strings.SplitN(strings.SplitN(verdict, "@", 2)[0], ":", 2)[0])
		if strings.HasPrefix(verdict, "REJ") {
			r.out.Count("class:" + verdict[strings.Index(verdict, ":")+1:])
		}
		r.out.Case(text, len(evs) > 4)
		r.out.Sample(mode + ": " + text + " => " + verdict)
		if idx%4 == 0 && verdict != "ACC" {
			r.out.Finding("C10", "valid-rejected:"+verdict[strings.Index(verdict, ":")+1:], "a well-formed document (by construction) is rejected: "+verdict, text)
		}
		r.out.Line("corr", id, "RULES", []string{rc.text(), text}, verdict+" "+EventsText(fwd))
		r.out.Line("prop", id, "WF.REL", []string{rc.text(), text, verdict}, "1")
	})
	if r.Shard == 0 && r.Only < 0 {
		depth := 4
		if r.Tier == "thorough" {
			depth = 6
		}
		exhaustiveRules(r, rc, depth)
	}
}

var abstractAlphabet = []string{"n", "t", "pi:1", "fl:3ff8000000000000", "l", "m", "e", "nd", "end", "pad", "cm:0:41",
	"s:str:6b", "ab:str", "ac:1:0", "ac:1:1", "ad:41", "mk:61", "ref:61", "rt:74", "r:74", "ed", "s:rid:61"}

// exhaustiveRules: all sequences bd v:0 <≤depth events over the abstract alphabet>, DFS with
// prefix pruning (a rejected prefix is not extended).
func exhaustiveRules(r *Run, rc ruleCfg, depth int) {
	cfg := rc.config()
	alpha := make([]Event, len(abstractAlphabet))
	for i, a := range abstractAlphabet {
		alpha[i], _ = parseEvent(a)
	}
	prefix := []Event{{K: "bd"}, {K: "v"}}
	n := 0
	var dfs func(d int)
	dfs = func(d int) {
		for _, a := range alpha {
			seq := append(append([]Event{}, prefix...), a)
			verdict, fwd := runRules(seq, cfg)
			n++
			text := EventsText(seq)
			id := fmt.Sprintf("x%d", n)
			if verdict == "OPEN" {
				// still viable: the model must agree (no rejection so far)
				r.out.Line("corr", id, "RULES", []string{rc.text(), text}, verdict+" "+EventsText(fwd))
				if d+1 < depth {
					prefix = append(prefix, a)
					dfs(d + 1)
					prefix = prefix[:len(prefix)-1]
				}
			} else {
				r.out.Line("corr", id, "RULES", []string{rc.text(), text}, verdict+" "+EventsText(fwd))
				if a.K == "ed" || strings.HasPrefix(verdict, "REJ") {
					// a complete or rejected sequence: also compare with the grammar — but the grammar
					// judges whole documents, so close rejected prefixes with nothing (index must match)
					if a.K == "ed" {
						r.out.Line("prop", id, "WF.REL", []string{rc.text(), text, verdict}, "1")
					}
				}
			}
		}
	}
	dfs(0)
	r.out.Add("exhaustive-sequences", n)
}

var _ = big.NewInt
var _ = events.ArrayTypeBit
