package main

// C25: every CTE array-format setting produces readable CTE.
//
// All 11 numeric array kinds x all 7 format settings (exhaustive), with arrays holding boundary,
// random, negative, subnormal and special elements: the real encoder's text is compared with
// the Lean model's text (CTE.ARRFMT), the real decoder's reading of that text is compared with
// the model's reading (CTE.ARRPARSE) and - the property itself - must be the original elements.

import (
	"encoding/binary"
	"fmt"
	"math"
	"strings"

	"github.com/kstenerud/go-concise-encoding/ce/events"
	"github.com/kstenerud/go-concise-encoding/configuration"
)

func init() {
	runners["C25"] = runC25
}

type arrKind struct {
	name   string
	at     events.ArrayType
	bits   int
	signed bool
	float  bool
	set    func(c *configuration.Configuration, f configuration.CTENumericFormat)
}

var arrKinds = []arrKind{
	{"u8", events.ArrayTypeUint8, 8, false, false, func(c *configuration.Configuration, f configuration.CTENumericFormat) { c.Encoder.CTE.DefaultNumericFormats.Array.Uint8 = f }},
	{"u16", events.ArrayTypeUint16, 16, false, false, func(c *configuration.Configuration, f configuration.CTENumericFormat) { c.Encoder.CTE.DefaultNumericFormats.Array.Uint16 = f }},
	{"u32", events.ArrayTypeUint32, 32, false, false, func(c *configuration.Configuration, f configuration.CTENumericFormat) { c.Encoder.CTE.DefaultNumericFormats.Array.Uint32 = f }},
	{"u64", events.ArrayTypeUint64, 64, false, false, func(c *configuration.Configuration, f configuration.CTENumericFormat) { c.Encoder.CTE.DefaultNumericFormats.Array.Uint64 = f }},
	{"i8", events.ArrayTypeInt8, 8, true, false, func(c *configuration.Configuration, f configuration.CTENumericFormat) { c.Encoder.CTE.DefaultNumericFormats.Array.Int8 = f }},
	{"i16", events.ArrayTypeInt16, 16, true, false, func(c *configuration.Configuration, f configuration.CTENumericFormat) { c.Encoder.CTE.DefaultNumericFormats.Array.Int16 = f }},
	{"i32", events.ArrayTypeInt32, 32, true, false, func(c *configuration.Configuration, f configuration.CTENumericFormat) { c.Encoder.CTE.DefaultNumericFormats.Array.Int32 = f }},
	{"i64", events.ArrayTypeInt64, 64, true, false, func(c *configuration.Configuration, f configuration.CTENumericFormat) { c.Encoder.CTE.DefaultNumericFormats.Array.Int64 = f }},
	{"f16", events.ArrayTypeFloat16, 16, true, true, func(c *configuration.Configuration, f configuration.CTENumericFormat) { c.Encoder.CTE.DefaultNumericFormats.Array.Float16 = f }},
	{"f32", events.ArrayTypeFloat32, 32, true, true, func(c *configuration.Configuration, f configuration.CTENumericFormat) { c.Encoder.CTE.DefaultNumericFormats.Array.Float32 = f }},
	{"f64", events.ArrayTypeFloat64, 64, true, true, func(c *configuration.Configuration, f configuration.CTENumericFormat) { c.Encoder.CTE.DefaultNumericFormats.Array.Float64 = f }},
}

var arrFormats = []struct {
	name string
	f    configuration.CTENumericFormat
}{
	{"dec", configuration.CTEEncodingFormatDecimal}, {"bin", configuration.CTEEncodingFormatBinary},
	{"binz", configuration.CTEEncodingFormatBinaryZeroFilled}, {"oct", configuration.CTEEncodingFormatOctal},
	{"octz", configuration.CTEEncodingFormatOctalZeroFilled}, {"hex", configuration.CTEEncodingFormatHexadecimal},
	{"hexz", configuration.CTEEncodingFormatHexadecimalZeroFilled},
}

// element bit patterns: boundaries, random, negative, subnormal, special
func arrElemPool(k arrKind, rng *Rng) uint64 {
	mask := uint64(1)<<uint(k.bits) - 1
	if k.bits == 64 {
		mask = ^uint64(0)
	}
	if k.float {
		var f64 []float64 = []float64{0, math.Copysign(0, -1), 1, -1, 1.5, -2.25, 0.1, 255, 256, 65536, 1e10, -1e-10, 3.0e38, 1e-40, 5e-324, 1.7976931348623157e308,
			math.Inf(1), math.Inf(-1), math.NaN(), math.Float64frombits(0x7ff0000000000001), 123456789, 0.5, 1.0 / 3, 16777216, 16777217, 100, -100, 1e-45,
			// whole numbers around the int64 and uint64 boundaries (integer shortcuts of the writers)
			9223372036854775808, -9223372036854775808, 9223372036854774784, 18446744073709551616, 4611686018427387904, 9007199254740992, -9223372036854777856, 1e19, 1e20,
			// binary exponents that are multiples of 100
			0x1p100, 0x1.8p-100, -0x1p200, 0x1p-1000, 0x1p1000, 0x1p-10, 0x1p10}
		v := f64[rng.Intn(len(f64))]
		if rng.P(1, 3) {
			v = math.Float64frombits(rng.Next())
		}
		switch k.bits {
		case 64:
			return math.Float64bits(v)
		case 32:
			if v != v && math.Float64bits(v)&(1<<51) == 0 {
				return 0x7f800001 // signalling
			}
			return uint64(math.Float32bits(float32(v)))
		default:
			if v != v && math.Float64bits(v)&(1<<51) == 0 {
				return 0x7f81
			}
			b := uint64(math.Float32bits(float32(v)) >> 16)
			if rng.P(1, 8) {
				b = uint64(rng.Intn(0x80)) | uint64(rng.Intn(2))<<15 // bfloat16 subnormals
			}
			return b
		}
	}
	switch rng.Intn(4) {
	case 0:
		return []uint64{0, 1, 2, 7, 8, 9, 10, 15, 16, 63, 64, 100, 127, 128, 255, 256, mask, mask >> 1, mask>>1 + 1, mask - 1}[rng.Intn(20)] & mask
	case 1:
		return (uint64(1) << uint(rng.Intn(k.bits))) & mask
	case 2:
		return ((uint64(1) << uint(rng.Intn(k.bits))) - 1) & mask
	default:
		return rng.Next() & mask
	}
}

func packElems(bits int, elems []uint64) []byte {
	var out []byte
	for _, e := range elems {
		switch bits {
		case 8:
			out = append(out, byte(e))
		case 16:
			out = binary.LittleEndian.AppendUint16(out, uint16(e))
		case 32:
			out = binary.LittleEndian.AppendUint32(out, uint32(e))
		default:
			out = binary.LittleEndian.AppendUint64(out, e)
		}
	}
	return out
}

func unpackElems(bits int, data []byte) []uint64 {
	var out []uint64
	w := bits / 8
	for len(data) >= w {
		switch bits {
		case 8:
			out = append(out, uint64(data[0]))
		case 16:
			out = append(out, uint64(binary.LittleEndian.Uint16(data)))
		case 32:
			out = append(out, uint64(binary.LittleEndian.Uint32(data)))
		default:
			out = append(out, binary.LittleEndian.Uint64(data))
		}
		data = data[w:]
	}
	return out
}

// NaN elements keep only their kind (quiet / signalling) in CTE: canonicalise before comparing
func canonFloatElem(bits int, e uint64) uint64 {
	switch bits {
	case 16:
		if e&0x7f80 == 0x7f80 && e&0x7f != 0 {
			if e&0x40 != 0 {
				return 0x7fc0
			}
			return 0x7f81
		}
	case 32:
		if e&0x7f800000 == 0x7f800000 && e&0x7fffff != 0 {
			if e&0x400000 != 0 {
				return 0x7fc00000
			}
			return 0x7f800001
		}
	case 64:
		if e&0x7ff0000000000000 == 0x7ff0000000000000 && e&0xfffffffffffff != 0 {
			if e&0x8000000000000 != 0 {
				return 0x7ff8000000000000
			}
			return 0x7ff0000000000001
		}
	}
	return e
}

func elemsText(elems []uint64) string {
	if len(elems) == 0 {
		return "-"
	}
	var sb strings.Builder
	for i, e := range elems {
		if i > 0 {
			sb.WriteByte(',')
		}
		fmt.Fprintf(&sb, "%d", e)
	}
	return sb.String()
}

func runC25(r *Run) {
	r.each(func(idx int, rng *Rng) {
		k := arrKinds[idx%len(arrKinds)]
		f := arrFormats[(idx/len(arrKinds))%len(arrFormats)]
		cfg := configuration.New()
		k.set(cfg, f.f)
		n := []int{0, 1, 2, 3, 5, 8, 17}[rng.Intn(7)]
		elems := make([]uint64, n)
		for i := range elems {
			elems[i] = arrElemPool(k, rng)
		}
		data := packElems(k.bits, elems)
		evs := []Event{{K: "bd"}, {K: "v"}, {K: "a", AT: k.at, N: uint64(n), D: data}, {K: "ed"}}
		if rng.P(1, 3) && n > 1 {
			// the same array in chunked form (the engine then sees several data events)
			cut := 1 + rng.Intn(n-1)
			w := k.bits / 8
			evs = []Event{{K: "bd"}, {K: "v"}, {K: "ab", AT: k.at}, {K: "ac", N: uint64(cut), B: true}, {K: "ad", D: data[:cut*w]},
				{K: "ac", N: uint64(n - cut), B: false}, {K: "ad", D: data[cut*w:]}, {K: "ed"}}
		}
		key := k.name + ":" + f.name
		text := fmt.Sprintf("%s %s [%s]", k.name, f.name, elemsText(elems))
		r.out.Case(text, n > 0)
		r.out.Count("setting:" + key)
		doc, err := cteEncode(evs, cfg)
		if err != nil {
			r.out.Finding("C25", "encode-error:"+key, fmt.Sprintf("the CTE encoder fails on a %s array with format %s: %v", k.name, f.name, err), text)
			return
		}
		docS := string(doc)
		body := strings.TrimPrefix(docS, "c0\n")
		if idx%131 == 0 {
			r.out.Sample(text + " => " + strings.ReplaceAll(docS, "\n", "\\n"))
		}
		// model correspondence, encoder side
		r.out.Line("corr", fmt.Sprintf("%d", idx), "CTE.ARRFMT", []string{k.name, f.name, elemsText(elems)}, body)
		back, derr := cteDecode(doc, cfg, true)
		// model correspondence, decoder side: what the real decoder read from the real text
		got := "ERR"
		var gotElems []uint64
		if derr == nil && len(back) == 4 && back[2].K == "a" && back[2].AT == k.at {
			gotElems = unpackElems(k.bits, back[2].D)
			got = "OK " + elemsText(gotElems)
		} else if derr == nil {
			got = "OTHER " + EventsText(back)
		}
		r.out.Line("corr", fmt.Sprintf("%d", idx), "CTE.ARRPARSE", []string{k.name, body}, got)
		// the property
		if derr != nil || gotElems == nil && n > 0 {
			r.out.Finding("C25", "unreadable:"+key, fmt.Sprintf("the text the encoder writes for a %s array in format %s does not decode: %v", k.name, f.name, derr), text+" => "+docS)
			return
		}
		ok := len(gotElems) == len(elems)
		for i := 0; ok && i < len(elems); i++ {
			a, b := elems[i], gotElems[i]
			if k.float {
				a, b = canonFloatElem(k.bits, a), canonFloatElem(k.bits, b)
			}
			if a != b {
				ok = false
			}
		}
		if !ok {
			r.out.Finding("C25", "differs:"+key, fmt.Sprintf("a %s array written in format %s reads back as different elements: %s", k.name, f.name, elemsText(gotElems)), text+" => "+docS)
		}
	})
}
