package main

// Grammar-directed generator of rules-valid event streams (DESIGN Appendix B).

import (
	"fmt"
	"math"
	"math/big"

	"github.com/cockroachdb/apd/v2"
	compact_float "github.com/kstenerud/go-compact-float"
	compact_time "github.com/kstenerud/go-compact-time"
	"github.com/kstenerud/go-concise-encoding/ce/events"
)

type GenCfg struct {
	MaxDepth     int
	Budget       int // approximate number of values
	NoComments   bool
	NoPadding    bool
	NoCustomText bool
	NoTimes      bool
	NoBigFloat   bool
	InexactBigFloat bool // allow big.Floats that are not float64 values (rounded by both encoders)
	NoBigDecimal bool
	NoMarkers    bool
	NoKeyMarkers bool
	NoRecords    bool
	NoMedia      bool
	NoEdgeNode   bool
	OnlyEdges    bool
	OnlyNodes    bool
	NoChunked    bool
	NoNestedMark bool // no markers inside a marked container (D19)
	AsciiOnly    bool
	NoNaNPayload bool
	NoNilBig     bool
	NoBoolEv     bool // use t/f only (CTE cannot distinguish)
	NoMidCharSplit bool
	NoBitArrays  bool
	NoArrayNaN   bool // float arrays hold no NaN elements
	NoUIDArrays  bool
	UrlRids      bool // resource IDs are well-formed URLs (the builder parses them with net/url)
	NoRemoteRef  bool
	NoCustom     bool
	NoRefs       bool // markers but no references
	EmptyData    bool // zero-length array data events now and then (valid: they complete nothing)
	MarkerHeavy  bool // more markers and references, also in key positions
}

type markInfo struct {
	keyable bool
}

type Gen struct {
	r           *Rng
	c           GenCfg
	budget      int
	out         []Event
	nextID      int
	markers     map[string]markInfo // completed markers
	markerOrder []string
	pending     []string // forward-referenced ids not yet defined
	pendingKey  map[string]bool
	recTypes    []recType
	flushable   int // number of open list/map/node-children containers
	inMarked    int
	Stats       map[string]int
}

type recType struct {
	id string
	n  int
}

func NewGen(r *Rng, c GenCfg) *Gen {
	if c.MaxDepth == 0 {
		c.MaxDepth = 6
	}
	if c.Budget == 0 {
		c.Budget = 30
	}
	return &Gen{r: r, c: c, budget: c.Budget, markers: map[string]markInfo{}, pendingKey: map[string]bool{}, Stats: map[string]int{}}
}

func (g *Gen) emit(e Event) {
	g.out = append(g.out, e)
	g.Stats[e.K]++
}

var idAlphabet = []string{"a", "b", "c", "x", "y", "z", "A", "Q", "0", "7", "_", "é", "ß", "日", "本"}

func (g *Gen) freshID() string {
	g.nextID++
	s := idAlphabet[g.r.Intn(6)]
	n := g.r.Intn(4)
	for i := 0; i < n; i++ {
		k := len(idAlphabet)
		if g.c.AsciiOnly {
			k = 11
		}
		s += idAlphabet[g.r.Intn(k)]
	}
	return fmt.Sprintf("%s%d", s, g.nextID)
}

// Doc generates a complete valid document.
func (g *Gen) Doc() []Event {
	g.emit(Event{K: "bd"})
	g.emit(Event{K: "v", N: 0})
	g.trivia()
	if !g.c.NoRecords && g.r.P(1, 4) {
		n := 1 + g.r.Intn(3)
		for i := 0; i < n; i++ {
			g.recordType()
			g.trivia()
		}
	}
	g.value(0, ctxAny)
	// the validator allows no padding or comment between the top-level value and the end
	g.emit(Event{K: "ed"})
	return g.out
}

func (g *Gen) trivia() {
	for g.r.P(1, 8) {
		if !g.c.NoPadding && g.r.P(1, 2) {
			g.emit(Event{K: "pad"})
		} else if !g.c.NoComments {
			g.comment()
		} else {
			return
		}
	}
}

func (g *Gen) comment() {
	multi := g.r.P(1, 2)
	txt := g.text(g.r.Intn(12))
	// keep comment text printable for CTE: no newline in single-line, no "*/" in multi-line
	clean := make([]byte, 0, len(txt))
	for _, b := range txt {
		if b == '\n' || b == '\r' || b == '*' || b == '/' {
			b = '_'
		}
		clean = append(clean, b)
	}
	g.emit(Event{K: "cm", B: multi, D: clean})
}

func (g *Gen) recordType() {
	id := g.freshID()
	n := g.r.Intn(4)
	g.emit(Event{K: "rt", D: []byte(id)})
	used := map[string]bool{}
	for i := 0; i < n; i++ {
		g.key(used, false)
	}
	g.emit(Event{K: "end"})
	g.recTypes = append(g.recTypes, recType{id, n})
}

type vctx int

const (
	ctxAny vctx = iota
	ctxNonNull
)

// value emits one value (possibly marked, possibly a reference).
func (g *Gen) value(depth int, ctx vctx) {
	g.budget--
	// reference
	refDen, mkDen := 12, 10
	if g.c.MarkerHeavy {
		refDen, mkDen = 5, 4
	}
	if !g.c.NoMarkers && !g.c.NoRefs && g.r.P(1, refDen) {
		if len(g.markerOrder) > 0 && g.r.P(2, 3) {
			id := g.markerOrder[g.r.Intn(len(g.markerOrder))]
			g.emit(Event{K: "ref", D: []byte(id)})
			return
		}
		if g.flushable > 0 {
			id := g.freshID()
			g.pending = append(g.pending, id)
			g.emit(Event{K: "ref", D: []byte(id)})
			return
		}
	}
	marked := false
	var mid string
	if !g.c.NoMarkers && g.r.P(1, mkDen) && !(g.c.NoNestedMark && g.inMarked > 0) {
		marked = true
		mid = g.freshID()
		g.emit(Event{K: "mk", D: []byte(mid)})
	}
	if marked {
		g.inMarked++
	}
	keyable := g.plainValue(depth, ctx, marked)
	if marked {
		g.inMarked--
		g.markers[mid] = markInfo{keyable: keyable}
		g.markerOrder = append(g.markerOrder, mid)
	}
}

// plainValue emits a non-reference, non-marker value; returns whether it is keyable.
func (g *Gen) plainValue(depth int, ctx vctx, marked bool) bool {
	canNest := depth < g.c.MaxDepth && g.budget > 0
	for {
		k := g.r.Intn(24)
		switch {
		case k == 0:
			if ctx == ctxNonNull {
				continue
			}
			switch g.r.Intn(6) {
			case 0:
				if g.c.NoNilBig {
					g.emit(Event{K: "n"})
				} else {
					g.emit(Event{K: "bi", Nil: true})
				}
			case 1:
				if g.c.NoNilBig || g.c.NoBigFloat {
					g.emit(Event{K: "n"})
				} else {
					g.emit(Event{K: "bf", Nil: true})
				}
			case 2:
				if g.c.NoNilBig || g.c.NoBigDecimal {
					g.emit(Event{K: "n"})
				} else {
					g.emit(Event{K: "bdf", Nil: true})
				}
			default:
				g.emit(Event{K: "n"})
			}
			return false
		case k == 1:
			g.boolean()
			return true
		case k <= 4:
			g.integer()
			return true
		case k <= 6:
			g.float()
			return false
		case k == 7:
			g.decimal()
			return false
		case k == 8:
			g.emit(Event{K: "uid", D: g.r.Bytes(16)})
			return true
		case k == 9:
			if g.c.NoTimes {
				continue
			}
			g.emit(Event{K: "tm", T: g.time()})
			return true
		case k <= 12:
			g.stringValue(events.ArrayTypeString)
			return true
		case k == 13:
			g.stringValue(events.ArrayTypeResourceID)
			return true
		case k == 14:
			g.typedArray()
			return false
		case k == 15:
			switch g.r.Intn(4) {
			case 0:
				if marked || g.c.NoRemoteRef {
					continue // remote references are not markable
				}
				g.stringValue(events.ArrayTypeReferenceRemote)
			case 1:
				if g.c.NoCustom {
					continue
				}
				g.customBinary()
			case 2:
				if g.c.NoCustomText || g.c.NoCustom {
					continue
				}
				g.customText()
			case 3:
				if g.c.NoMedia {
					continue
				}
				g.media()
			}
			return false
		case k <= 18:
			if !canNest {
				continue
			}
			g.list(depth)
			return false
		case k <= 20:
			if !canNest {
				continue
			}
			g.mapc(depth)
			return false
		case k == 21:
			if !canNest || g.c.NoRecords || len(g.recTypes) == 0 {
				continue
			}
			g.record(depth)
			return false
		case k == 22:
			if !canNest || g.c.NoEdgeNode || g.c.OnlyNodes {
				continue
			}
			g.edge(depth)
			return false
		case k == 23:
			if !canNest || g.c.NoEdgeNode || g.c.OnlyEdges {
				continue
			}
			g.node(depth)
			return false
		}
	}
}

func (g *Gen) flushPending(asMap bool, used map[string]bool, depth int) {
	for len(g.pending) > 0 {
		id := g.pending[0]
		g.pending = g.pending[1:]
		if asMap {
			g.key(used, false)
		}
		g.emit(Event{K: "mk", D: []byte(id)})
		// keyable, non-null scalar: fits every position a forward reference may sit in
		if g.r.P(1, 2) {
			g.emit(Event{K: "pi", N: uint64(g.r.Intn(1000))})
		} else {
			g.emit(Event{K: "s", AT: events.ArrayTypeString, D: g.text(g.r.Intn(6))})
		}
		g.markers[id] = markInfo{keyable: true}
		g.markerOrder = append(g.markerOrder, id)
	}
}

func (g *Gen) list(depth int) {
	g.emit(Event{K: "l"})
	g.flushable++
	n := g.r.Small(6)
	for i := 0; i < n; i++ {
		g.trivia()
		g.value(depth+1, ctxAny)
	}
	g.trivia()
	g.flushPending(false, nil, depth)
	g.flushable--
	g.emit(Event{K: "end"})
}

func (g *Gen) mapc(depth int) {
	g.emit(Event{K: "m"})
	g.flushable++
	used := map[string]bool{}
	n := g.r.Small(5)
	for i := 0; i < n; i++ {
		g.trivia()
		g.key(used, true)
		g.trivia()
		g.value(depth+1, ctxAny)
	}
	g.trivia()
	g.flushPending(true, used, depth)
	g.flushable--
	g.emit(Event{K: "end"})
}

func (g *Gen) record(depth int) {
	rt := g.recTypes[g.r.Intn(len(g.recTypes))]
	g.emit(Event{K: "r", D: []byte(rt.id)})
	for i := 0; i < rt.n; i++ {
		g.trivia()
		g.value(depth+1, ctxAny)
	}
	g.emit(Event{K: "end"})
}

func (g *Gen) edge(depth int) {
	g.emit(Event{K: "e"})
	g.value(depth+1, ctxNonNull)
	g.value(depth+1, ctxAny)
	g.value(depth+1, ctxNonNull)
	g.emit(Event{K: "end"})
}

func (g *Gen) node(depth int) {
	g.emit(Event{K: "nd"})
	g.value(depth+1, ctxAny)
	g.flushable++
	n := g.r.Small(4)
	for i := 0; i < n; i++ {
		g.value(depth+1, ctxAny)
	}
	g.flushPending(false, nil, depth)
	g.flushable--
	g.emit(Event{K: "end"})
}

// key emits a map key not denoting the same value as any key in used.
func (g *Gen) key(used map[string]bool, allowRef bool) {
	for tries := 0; ; tries++ {
		mark := len(g.out)
		stats := map[string]int{}
		for k, v := range g.Stats {
			stats[k] = v
		}
		var canon string
		k := g.r.Intn(12)
		if tries > 20 {
			k = 2
		}
		markedKey := ""
		if allowRef && !g.c.NoMarkers && !g.c.NoKeyMarkers && k >= 1 && tries <= 20 && g.r.P(1, 8) {
			markedKey = g.freshID()
			g.emit(Event{K: "mk", D: []byte(markedKey)})
		}
		switch {
		case k == 0 && allowRef && !g.c.NoMarkers && !g.c.NoRefs:
			// reference to a keyable marker
			var cands []string
			for _, id := range g.markerOrder {
				if g.markers[id].keyable {
					cands = append(cands, id)
				}
			}
			if len(cands) == 0 {
				continue
			}
			id := cands[g.r.Intn(len(cands))]
			canon = "ref:" + id
			g.emit(Event{K: "ref", D: []byte(id)})
		case k == 1:
			g.boolean()
			canon = g.out[len(g.out)-1].keyCanon()
		case k <= 4:
			g.integer()
			canon = g.out[len(g.out)-1].keyCanon()
		case k == 5:
			g.emit(Event{K: "uid", D: g.r.Bytes(16)})
			canon = g.out[len(g.out)-1].keyCanon()
		case k == 6:
			if g.c.NoTimes {
				continue
			}
			g.emit(Event{K: "tm", T: g.time()})
			canon = g.out[len(g.out)-1].keyCanon()
		case k == 7:
			txt := g.text(1 + g.r.Intn(8))
			if g.c.UrlRids {
				txt = []byte(urlPool[g.r.Intn(len(urlPool))])
			}
			canon = "rid:" + string(txt)
			g.stringOf(events.ArrayTypeResourceID, txt)
		default:
			txt := g.text(g.r.Intn(10))
			if tries > 20 {
				txt = []byte(fmt.Sprintf("k%d", g.r.Intn(1000000)))
			}
			canon = "str:" + string(txt)
			g.stringOf(events.ArrayTypeString, txt)
		}
		if used[canon] {
			g.out = g.out[:mark]
			g.Stats = stats
			continue
		}
		used[canon] = true
		if markedKey != "" {
			g.markers[markedKey] = markInfo{keyable: true}
			g.markerOrder = append(g.markerOrder, markedKey)
		}
		return
	}
}

// keyCanon: denotation of a scalar key event.
func (e *Event) keyCanon() string {
	switch e.K {
	case "b":
		return "bool:" + b01(e.B)
	case "t":
		return "bool:1"
	case "f":
		return "bool:0"
	case "pi":
		return "int:" + new(big.Int).SetUint64(e.N).String()
	case "ni":
		return "int:" + new(big.Int).Neg(new(big.Int).SetUint64(e.N)).String()
	case "i":
		return "int:" + big.NewInt(e.I).String()
	case "bi":
		return "int:" + e.Big.String()
	case "uid":
		return "uid:" + hx(e.D)
	case "tm":
		return "tm:" + timeText(e.T)
	}
	return e.Text()
}

func (g *Gen) boolean() {
	b := g.r.P(1, 2)
	if !g.c.NoBoolEv && g.r.P(1, 3) {
		g.emit(Event{K: "b", B: b})
	} else if b {
		g.emit(Event{K: "t"})
	} else {
		g.emit(Event{K: "f"})
	}
}

var intBoundaries = []uint64{0, 1, 2, 99, 100, 101, 127, 128, 255, 256, 32767, 32768, 65535, 65536,
	1<<31 - 1, 1 << 31, 1<<32 - 1, 1 << 32, 1<<40 + 12345, 1<<48 - 1, 1 << 48, 1<<53 - 1, 1 << 53, 1<<53 + 1,
	1<<63 - 1, 1 << 63, 1<<63 + 1, math.MaxUint64 - 1, math.MaxUint64}

func (g *Gen) magnitude() uint64 {
	switch g.r.Intn(4) {
	case 0:
		return intBoundaries[g.r.Intn(len(intBoundaries))]
	case 1:
		return uint64(g.r.Intn(300))
	case 2:
		return g.r.Next() >> uint(g.r.Intn(64))
	default:
		b := intBoundaries[g.r.Intn(len(intBoundaries))]
		d := uint64(g.r.Intn(3))
		if g.r.P(1, 2) {
			return b + d
		}
		return b - d
	}
}

// integer emits an integer in one of the event forms able to express it.
func (g *Gen) integer() {
	if g.r.P(1, 8) {
		g.bigInt()
		return
	}
	m := g.magnitude()
	neg := g.r.P(1, 2)
	forms := []string{}
	if neg {
		forms = append(forms, "ni")
		if m <= 1<<63 && m != 0 {
			forms = append(forms, "i")
		}
	} else {
		forms = append(forms, "pi")
		if m <= math.MaxInt64 {
			forms = append(forms, "i")
		}
	}
	if !(neg && m == 0) {
		forms = append(forms, "bi")
	}
	switch forms[g.r.Intn(len(forms))] {
	case "pi":
		g.emit(Event{K: "pi", N: m})
	case "ni":
		g.emit(Event{K: "ni", N: m})
	case "i":
		if neg {
			g.emit(Event{K: "i", I: int64(-m)})
		} else {
			g.emit(Event{K: "i", I: int64(m)})
		}
	case "bi":
		v := new(big.Int).SetUint64(m)
		if neg {
			v.Neg(v)
		}
		g.emit(Event{K: "bi", Big: v})
	}
}

func (g *Gen) bigInt() {
	var v *big.Int
	switch g.r.Intn(4) {
	case 0:
		v = new(big.Int).Lsh(big.NewInt(1), 64)
		v.Add(v, big.NewInt(int64(g.r.Intn(3))-1))
	case 1:
		v = new(big.Int).Lsh(big.NewInt(1), uint(64+g.r.Intn(200)))
		v.Add(v, new(big.Int).SetUint64(g.r.Next()))
	case 2:
		v = new(big.Int).SetBytes(g.r.Bytes(9 + g.r.Intn(40)))
	default:
		v = new(big.Int).SetBytes(g.r.Bytes(1 + g.r.Intn(12)))
	}
	if g.r.P(1, 2) {
		v.Neg(v)
	}
	g.emit(Event{K: "bi", Big: v})
}

var floatPool = []uint64{
	0x0000000000000000, 0x8000000000000000, // ±0
	0x3ff0000000000000, 0xbff0000000000000, 0x3ff8000000000000, 0x4000000000000000, // 1, -1, 1.5, 2
	0x3fb999999999999a,                                         // 0.1
	0x3ff0000020000000,                                         // float32-exact, not bfloat16
	0x3ff0100000000000,                                         // 1 + 2^-8 (bfloat16 boundary)
	0x3ff0080000000000,                                         // 1 + 2^-9 (float32 only)
	0x47efffffe0000000,                                         // max float32
	0x47f0000000000000,                                         // 2^128: just above float32
	0x36a0000000000000,                                         // min float32 subnormal
	0x3690000000000000,                                         // below it
	0x380fffffc0000000,                                         // max float32 subnormal
	0x3810000000000000,                                         // min float32 normal
	0x0000000000000001, 0x000fffffffffffff, 0x0010000000000000, // double subnormals / min normal
	0x7fefffffffffffff,                                         // max double
	0x7e37e43c8800759c,                                         // 1e300
	0x7ff0000000000000, 0xfff0000000000000,                     // ±inf
	0x7ff8000000000000, 0x7ff4000000000000, // qNaN, sNaN
	0x7ff8000000000001, 0xfff4000000000123, // NaN payloads
}

func (g *Gen) floatBits() uint64 {
	switch g.r.Intn(4) {
	case 0, 1:
		b := floatPool[g.r.Intn(len(floatPool))]
		if g.c.NoNaNPayload && (b == 0x7ff8000000000001 || b == 0xfff4000000000123) {
			b = 0x7ff8000000000000
		}
		return b
	case 2:
		// random float32-representable
		return math.Float64bits(float64(math.Float32frombits(uint32(g.r.Next()) &^ 0x7f800000 | uint32(g.r.Intn(254)+1)<<23)))
	default:
		b := g.r.Next()
		if (b>>52)&0x7ff == 0x7ff {
			b &^= 1 << 62
		}
		return b
	}
}

func (g *Gen) float() {
	if !g.c.NoBigFloat && g.r.P(1, 6) {
		g.bigFloat()
		return
	}
	g.emit(Event{K: "fl", F: math.Float64frombits(g.floatBits())})
}

func (g *Gen) bigFloat() {
	var f *big.Float
	k := g.r.Intn(3)
	if !g.c.InexactBigFloat {
		k = 0
	}
	switch k {
	case 0:
		b := g.floatBits()
		v := math.Float64frombits(b)
		if v != v || math.IsInf(v, 0) {
			v = 1.25
		}
		f = new(big.Float).SetPrec(uint(53 + g.r.Intn(3)*40)).SetFloat64(v)
	case 1:
		f = new(big.Float).SetPrec(uint(64 + g.r.Intn(100)))
		f.SetInt(new(big.Int).SetBytes(g.r.Bytes(1 + g.r.Intn(14))))
		f.SetMantExp(f, g.r.Intn(200)-100)
	default:
		f = new(big.Float).SetPrec(100)
		f.Quo(big.NewFloat(1), big.NewFloat(float64(3+g.r.Intn(20))))
	}
	if g.r.P(1, 2) {
		f.Neg(f)
	}
	g.emit(Event{K: "bf", BF: f})
}

func (g *Gen) decimal() {
	if !g.c.NoBigDecimal && g.r.P(1, 4) {
		var d *apd.Decimal
		switch g.r.Intn(8) {
		case 0:
			d = &apd.Decimal{Form: apd.Infinite, Negative: g.r.P(1, 2)}
		case 1:
			d = &apd.Decimal{Form: apd.NaN}
		case 2:
			d = &apd.Decimal{Form: apd.NaNSignaling}
		case 3:
			d = apd.New(0, int32(g.r.Intn(10)-5))
			d.Negative = g.r.P(1, 2)
		default:
			c := new(big.Int).SetBytes(g.r.Bytes(1 + g.r.Intn(20)))
			d = apd.NewWithBigInt(c, int32(g.r.Intn(2000)-1000))
			d.Negative = g.r.P(1, 2)
		}
		g.emit(Event{K: "bdf", BD: d})
		return
	}
	var d compact_float.DFloat
	switch g.r.Intn(10) {
	case 0:
		d = compact_float.Zero()
	case 1:
		d = compact_float.NegativeZero()
	case 2:
		d = compact_float.Infinity()
	case 3:
		d = compact_float.NegativeInfinity()
	case 4:
		d = compact_float.QuietNaN()
	case 5:
		d = compact_float.SignalingNaN()
	default:
		c := int64(g.r.Next() >> uint(1+g.r.Intn(62)))
		if g.r.P(1, 2) {
			c = -c
		}
		if g.r.P(1, 4) {
			c *= 1000
		}
		d = compact_float.DFloat{Exponent: int32(g.r.Intn(700) - 350), Coefficient: c}
	}
	g.emit(Event{K: "df", DF: d})
}

var areaLocs = []string{"Europe/Berlin", "America/Argentina/Buenos_Aires", "Asia/Tokyo", "Etc/UTC", "Zero", "Local", "E/Paris", "Antarctica/Troll", "Indian/Mahe"}

func (g *Gen) zone() compact_time.Timezone {
	switch g.r.Intn(6) {
	case 0:
		return compact_time.TZAtUTC()
	case 1:
		return compact_time.TZLocal()
	case 2:
		if g.r.P(1, 3) {
			// a synthetic area/location of every length up to 60 (the encoders size their buffers by it:
			// seeded change C03B3 lost the last letter when the encoded time filled the buffer exactly)
			const tail = "abcdefghijklmnopqrstuvwxyz0123456789_-./+"
			n := g.r.Intn(60)
			b := []byte{byte('A' + g.r.Intn(26))}
			for i := 0; i < n; i++ {
				if g.r.P(3, 4) {
					b = append(b, 'a')
				} else {
					b = append(b, tail[g.r.Intn(len(tail))])
				}
			}
			return compact_time.TZAtAreaLocation(string(b))
		}
		return compact_time.TZAtAreaLocation(areaLocs[g.r.Intn(len(areaLocs))])
	case 3, 4:
		lat := g.r.Intn(18001) - 9000
		long := g.r.Intn(36001) - 18000
		if g.r.P(1, 3) {
			lat = []int{-9000, 9000, 0, 29, -29, 113, 1}[g.r.Intn(7)]
			long = []int{-18000, 18000, 0, 113, -113, 29, 1}[g.r.Intn(7)]
		}
		return compact_time.TZAtLatLong(lat, long)
	default:
		return compact_time.TZWithMiutesOffsetFromUTC(g.r.Intn(2*1439+1) - 1439)
	}
}

func (g *Gen) nanos() int {
	switch g.r.Intn(5) {
	case 0:
		return 0
	case 1:
		return g.r.Intn(1000) * 1000000
	case 2:
		return g.r.Intn(1000000) * 1000
	case 3:
		return 999999999
	default:
		return g.r.Intn(1000000000)
	}
}

func (g *Gen) year() int {
	switch g.r.Intn(6) {
	case 0:
		return 2000
	case 1:
		return 1 + g.r.Intn(3000)
	case 2:
		return -1 - g.r.Intn(5000)
	case 3:
		return []int{1, -1, 1999, 2001, 9999, 10000, 131071, -131072, 1 << 20}[g.r.Intn(9)]
	default:
		return 1900 + g.r.Intn(200)
	}
}

func (g *Gen) time() compact_time.Time {
	month := 1 + g.r.Intn(12)
	day := 1 + g.r.Intn(28)
	switch g.r.Intn(3) {
	case 0:
		return compact_time.NewDate(g.year(), month, day)
	case 1:
		return compact_time.NewTime(g.r.Intn(24), g.r.Intn(60), g.r.Intn(60), g.nanos(), g.zone())
	default:
		return compact_time.NewTimestamp(g.year(), month, day, g.r.Intn(24), g.r.Intn(60), g.r.Intn(60), g.nanos(), g.zone())
	}
}

var textPieces = []string{"a", "b", "z", "Q", " ", "0", "9", "_", "-", ".", "\"", "\\", "\t", "\n", "/", "*", "|", "é", "ß", "ñ", "λ", "日", "本", "€", "😀", "𐍈", " ", " ", "́", "<", ">", "[", "]", "{", "}", "@", "#", "$", "&", "%", "'", ":", ";", "=", "~", "`", "^"}

// text returns valid UTF-8 of about n characters.
func (g *Gen) text(n int) []byte {
	var b []byte
	k := len(textPieces)
	if g.c.AsciiOnly {
		k = 10
	}
	for i := 0; i < n; i++ {
		b = append(b, textPieces[g.r.Intn(k)]...)
	}
	return b
}

func (g *Gen) textLen() int {
	switch g.r.Intn(6) {
	case 0:
		return 0
	case 1:
		return []int{1, 14, 15, 16, 17, 31, 32}[g.r.Intn(7)]
	case 2:
		return 100 + g.r.Intn(200)
	default:
		return g.r.Intn(12)
	}
}

var urlPool = []string{"http://x.com", "https://example.org/a/b?c=d#e", "urn:isbn:0451450523", "mailto:a@b.c", "file:///tmp/x", "a", "x/y", "http://x.com/%C3%A9"}

func (g *Gen) stringValue(t events.ArrayType) {
	if g.c.UrlRids && t == events.ArrayTypeResourceID {
		g.stringOf(t, []byte(urlPool[g.r.Intn(len(urlPool))]))
		return
	}
	n := g.textLen()
	if t != events.ArrayTypeString && n == 0 {
		n = 1
	}
	g.stringOf(t, g.text(n))
}

// runeStarts returns the byte offsets at which a chunk of valid UTF-8 may be cut.
func runeStarts(b []byte) []int {
	var s []int
	for i := 0; i <= len(b); i++ {
		if i == len(b) || b[i]&0xc0 != 0x80 {
			s = append(s, i)
		}
	}
	return s
}

// stringOf emits a string-like array whole (a: / s:) or chunked.
func (g *Gen) stringOf(t events.ArrayType, txt []byte) {
	form := g.r.Intn(4)
	if g.c.NoChunked && form == 2 {
		form = 0
	}
	switch form {
	case 0, 3:
		g.emit(Event{K: "a", AT: t, N: uint64(len(txt)), D: txt})
	case 1:
		g.emit(Event{K: "s", AT: t, D: txt})
	case 2:
		g.emit(Event{K: "ab", AT: t})
		g.chunks(txt, 8, runeStarts(txt))
	}
}

// chunks emits chunk/data events for data (elemBits per element); cuts = allowed chunk
// boundaries in bytes (nil = every element boundary).
func (g *Gen) chunks(data []byte, elemBits int, cuts []int) {
	elemBytes := elemBits / 8
	if elemBits == 1 {
		panic("use bitChunks")
	}
	if cuts == nil {
		for i := 0; i <= len(data); i += elemBytes {
			cuts = append(cuts, i)
		}
	}
	// choose chunk boundaries
	bounds := []int{0}
	nchunks := 1 + g.r.Small(4)
	for i := 1; i < nchunks; i++ {
		bounds = append(bounds, cuts[g.r.Intn(len(cuts))])
	}
	bounds = append(bounds, len(data))
	sortInts(bounds)
	for i := 0; i+1 < len(bounds); i++ {
		lo, hi := bounds[i], bounds[i+1]
		more := i+2 < len(bounds)
		g.emit(Event{K: "ac", N: uint64((hi - lo) / elemBytes), B: more})
		g.dataEvents(data[lo:hi])
	}
}

func (g *Gen) dataEvents(d []byte) {
	for len(d) > 0 {
		if g.c.EmptyData && g.r.P(1, 8) {
			g.emit(Event{K: "ad", D: []byte{}})
		}
		n := len(d)
		if g.r.P(1, 3) {
			n = 1 + g.r.Intn(len(d))
			if g.c.NoMidCharSplit {
				for n < len(d) && d[n]&0xc0 == 0x80 {
					n++
				}
			}
		}
		g.emit(Event{K: "ad", D: d[:n]})
		d = d[n:]
	}
}

func sortInts(a []int) {
	for i := 1; i < len(a); i++ {
		for j := i; j > 0 && a[j] < a[j-1]; j-- {
			a[j], a[j-1] = a[j-1], a[j]
		}
	}
}

var numericArrayTypes = []events.ArrayType{events.ArrayTypeUint8, events.ArrayTypeUint16, events.ArrayTypeUint32,
	events.ArrayTypeUint64, events.ArrayTypeInt8, events.ArrayTypeInt16, events.ArrayTypeInt32, events.ArrayTypeInt64,
	events.ArrayTypeFloat16, events.ArrayTypeFloat32, events.ArrayTypeFloat64, events.ArrayTypeUID, events.ArrayTypeBit}

func (g *Gen) arrayCount() int {
	switch g.r.Intn(5) {
	case 0:
		return 0
	case 1:
		return []int{1, 7, 8, 9, 14, 15, 16, 17, 64}[g.r.Intn(9)]
	default:
		return g.r.Intn(12)
	}
}

func (g *Gen) typedArray() {
	t := numericArrayTypes[g.r.Intn(len(numericArrayTypes))]
	for (g.c.NoBitArrays && t == events.ArrayTypeBit) || (g.c.NoUIDArrays && t == events.ArrayTypeUID) {
		t = numericArrayTypes[g.r.Intn(len(numericArrayTypes))]
	}
	n := g.arrayCount()
	if t == events.ArrayTypeBit {
		g.bitArray(n)
		return
	}
	eb := t.ElementSize() / 8
	data := g.r.Bytes(n * eb)
	if g.c.NoArrayNaN {
		sanitizeFloatArray(t, data)
	}
	if g.c.NoChunked || g.r.P(1, 2) {
		g.emit(Event{K: "a", AT: t, N: uint64(n), D: data})
		return
	}
	g.emit(Event{K: "ab", AT: t})
	g.chunks(data, t.ElementSize(), nil)
}

func (g *Gen) bitArray(n int) {
	bits := make([]bool, n)
	for i := range bits {
		bits[i] = g.r.P(1, 2)
	}
	pack := func(bs []bool) []byte {
		out := make([]byte, (len(bs)+7)/8)
		for i, b := range bs {
			if b {
				out[i/8] |= 1 << uint(i%8)
			}
		}
		return out
	}
	if g.c.NoChunked || g.r.P(1, 2) {
		g.emit(Event{K: "a", AT: events.ArrayTypeBit, N: uint64(n), D: pack(bits)})
		return
	}
	g.emit(Event{K: "ab", AT: events.ArrayTypeBit})
	// chunk boundaries on multiples of 8 bits (the spec's rule for all but the last chunk)
	lo := 0
	for {
		rem := n - lo
		sz := rem
		more := false
		if rem > 8 && g.r.P(1, 2) {
			sz = 8 * (1 + g.r.Intn(rem/8))
			if sz < rem {
				more = true
			} else {
				sz = rem
			}
		} else if g.r.P(1, 6) {
			sz = 0
			more = true
		}
		g.emit(Event{K: "ac", N: uint64(sz), B: more})
		g.dataEvents(pack(bits[lo : lo+sz]))
		lo += sz
		if !more {
			break
		}
	}
}

// blobLen: payload length of a media object or custom binary value: mostly short, sometimes around and
// beyond the block sizes a writer might work in (seeded change C23B3 wrote hex bytes in blocks of 64 and
// glued the blocks together)
func (g *Gen) blobLen() int {
	if g.r.P(1, 6) {
		return []int{63, 64, 65, 100, 129, 200}[g.r.Intn(6)]
	}
	return g.r.Intn(20)
}

func (g *Gen) customBinary() {
	ct := g.customTypeCode()
	d := g.r.Bytes(g.blobLen())
	if g.c.NoChunked || g.r.P(1, 2) {
		g.emit(Event{K: "cb", N: ct, D: d})
		return
	}
	g.emit(Event{K: "cbg", AT: events.ArrayTypeCustomBinary, N: ct})
	g.chunks(d, 8, nil)
}

func (g *Gen) customText() {
	ct := g.customTypeCode()
	txt := g.text(g.r.Intn(12))
	if g.c.NoChunked || g.r.P(1, 2) {
		g.emit(Event{K: "ct", N: ct, D: txt})
		return
	}
	g.emit(Event{K: "cbg", AT: events.ArrayTypeCustomText, N: ct})
	g.chunks(txt, 8, runeStarts(txt))
}

func (g *Gen) customTypeCode() uint64 {
	return []uint64{0, 1, 127, 128, 255, 65536, 0xffffffff}[g.r.Intn(7)]
}

var mediaTypes = []string{"a/b", "text/plain", "application/x-sh", "image/png", "application/vnd.api+json", "x/y.z-w"}

// the characters a media type may hold after its first (a letter), as the text grammar has them
const mediaTypeTail = "abcxyzABCXYZ0189!#$%&'*+.^_`|~{}-"
const mediaTypeHead = "abmzABMZ"

// randValidMediaType: a media type drawn from the whole alphabet of the grammar (one slash, not at an end)
func randValidMediaType(r *Rng) string {
	part := func(first bool) string {
		n := 1 + r.Intn(4)
		b := make([]byte, n)
		for i := range b {
			if first && i == 0 {
				b[i] = mediaTypeHead[r.Intn(len(mediaTypeHead))]
			} else {
				b[i] = mediaTypeTail[r.Intn(len(mediaTypeTail))]
			}
		}
		return string(b)
	}
	return part(true) + "/" + part(false)
}

// randAnyMediaType: mostly-valid media types with characters from just outside every range the
// grammar uses (the ASCII neighbours of letters and digits, punctuation, control and non-ASCII bytes)
func randAnyMediaType(r *Rng) string {
	const edge = "/09:@AZ[\\]^_`az{|}~ !\"#$%&'()*+,-.;<=>?\x7f\x00\t\n\xc3\xa9"
	mt := []byte(randValidMediaType(r))
	for k := 0; k < 1+r.Intn(2); k++ {
		c := edge[r.Intn(len(edge))]
		switch r.Intn(4) {
		case 0:
			mt[0] = c
		case 1:
			mt[r.Intn(len(mt))] = c
		case 2:
			i := r.Intn(len(mt) + 1)
			mt = append(mt[:i], append([]byte{c}, mt[i:]...)...)
		default:
			mt[len(mt)-1] = c
		}
	}
	return string(mt)
}

func (g *Gen) media() {
	mt := mediaTypes[g.r.Intn(len(mediaTypes))]
	if g.r.P(1, 3) {
		mt = randValidMediaType(g.r)
	}
	d := g.r.Bytes(g.blobLen())
	if g.c.NoChunked || g.r.P(1, 2) {
		g.emit(Event{K: "md", D2: []byte(mt), D: d})
		return
	}
	g.emit(Event{K: "mb", D2: []byte(mt)})
	g.chunks(d, 8, nil)
}

// sanitizeFloatArray clears the top exponent bit of every element so that none is NaN or Inf.
func sanitizeFloatArray(t events.ArrayType, data []byte) {
	var eb int
	switch t {
	case events.ArrayTypeFloat16:
		eb = 2
	case events.ArrayTypeFloat32:
		eb = 4
	case events.ArrayTypeFloat64:
		eb = 8
	default:
		return
	}
	for i := eb - 1; i < len(data); i += eb {
		data[i] &^= 0x40
	}
}
