package main

// C02: CTE encode/decode preserves every rules-valid event stream.
// C03: CBE and CTE are 1:1 convertible.

import (
	"fmt"
	"strings"

	"github.com/kstenerud/go-concise-encoding/ce/events"
	"github.com/kstenerud/go-concise-encoding/configuration"
)

func init() {
	runners["C02"] = runC02
	runners["C03"] = runC03
}

func cteFullGenCfg() GenCfg {
	c := allGenCfg()
	c.MaxDepth = 5
	c.Budget = 25
	return c
}

func runC02(r *Run) {
	cfg := configuration.New()
	r.each(func(idx int, rng *Rng) {
		gc := cteFullGenCfg()
		if idx%5 == 4 {
			gc.MarkerHeavy = true
		}
		g := NewGen(rng, gc)
		evs := g.Doc()
		if idx%5 == 3 {
			evs = nastyTextDoc(rng)
			// model correspondence of the escaping layer, string by string
			for _, e := range evs {
				if e.K == "s" && e.AT == 1 && len(e.D) > 0 {
					if d, err := cteEncode([]Event{{K: "bd"}, {K: "v"}, e, {K: "ed"}}, cfg); err == nil {
						body := strings.TrimPrefix(string(d), "c0\n")
						if len(body) >= 2 && body[0] == '"' && body[len(body)-1] == '"' {
							r.out.Line("corr", fmt.Sprintf("%d", idx), "CTE.ESCAPE", []string{hx(e.D)}, hx([]byte(body[1:len(body)-1])))
						}
					}
				}
			}
		}
		text := EventsText(evs)
		for k, v := range g.Stats {
			r.out.Add("ev:"+k, v)
		}
		id := fmt.Sprintf("%d", idx)
		if hasInexactBigFloat(evs) {
			id = fmt.Sprintf("%d|bigfloat-inexact", idx)
		}
		r.out.Case(text, len(evs) > 4)
		if idx%200 == 0 {
			r.out.Sample(trunc(text, 500))
		}
		if _, err := rulesAccept(evs, cfg); err != nil {
			r.out.Count("skipped:rules-reject")
			return
		}
		doc, err := cteEncode(evs, cfg)
		if err != nil {
			r.out.Finding("C02", "encode-error", "the CTE encoder fails on a rules-valid stream: "+shortE(err), text)
			return
		}
		back, derr := cteDecode(doc, cfg, true)
		if derr != nil {
			r.out.Finding("C02", "decode-error", "the CTE decoder+rules reject the encoder's output: "+shortE(derr), trunc(text, 1500)+" ==> "+trunc(strings.ReplaceAll(string(doc), "\n", "\\n"), 1500))
			return
		}
		// same data, comments kept with their text (padding is dropped by canon on both sides)
		r.out.Line("prop", id, "CANON.EQ", []string{"2", text, EventsText(back)}, "1")
	})
}

// C03: every document the CBE decoder+rules accept converts to CTE that the CTE decoder+rules
// accept with the same data, and back; every accepted CTE document without custom text converts
// to CBE with the same data apart from comments.
// CBE documents that once converted wrongly (see known-findings.txt)
var c03Corpus = []string{
	"81009a7a0000007b0000007c00000000009b",       // zero-value date, time, timestamp (fix 559524b)
	"81007ff10279317b000000014c9c9b71fcc62ee1",   // zero-value time as a record-type key
	"81009a7b00000001997b000000019b9b",           // zero-value time as a map key
}

func runC03(r *Run) {
	cfg := configuration.New()
	r.each(func(idx int, rng *Rng) {
		id := fmt.Sprintf("%d", idx)
		switch idx % 3 {
		case 0, 1:
			// an accepted CBE document: encoder output, or a mutated valid document that is still accepted
			gc := cteFullGenCfg()
			gc.NoCustomText = true
			g := NewGen(rng, gc)
			evs := g.Doc()
			if idx%6 == 1 {
				evs = nastyTextDoc(rng)
				for i := range evs {
					if evs[i].K == "ct" {
						evs[i] = Event{K: "s", AT: 1, D: evs[i].D}
					}
				}
			}
			mediaMutated := false
			if idx%3 == 1 && rng.P(1, 3) {
				// a media type with characters from the edges of the grammar's ranges (the rules decide)
				for i := range evs {
					if evs[i].K == "md" || evs[i].K == "mb" {
						evs[i].D2 = []byte(randAnyMediaType(rng))
						mediaMutated = true
					}
				}
				if !mediaMutated && len(evs) > 3 && evs[2].K == "l" {
					ins := append([]Event{}, evs[:3]...)
					ins = append(ins, Event{K: "md", D2: []byte(randAnyMediaType(rng)), D: []byte{1}})
					evs = append(ins, evs[3:]...)
					mediaMutated = true
				}
			}
			doc, err := cbeEncode(evs, cfg)
			if err != nil {
				return
			}
			what := "encoder-output"
			if idx/3 < len(c03Corpus) && idx%3 == 0 {
				// minimised past failures first
				doc, _ = unhx(c03Corpus[idx/3])
				what = "corpus"
			} else if mediaMutated {
				what = "media-type-edge"
			} else if idx%3 == 1 && len(doc) > 3 {
				m := cloneBytes(doc)
				for k := 0; k < 1+rng.Intn(2); k++ {
					m[2+rng.Intn(len(m)-2)] = byte(rng.Intn(256))
				}
				doc, what = m, "mutated"
			}
			fromCBE, derr := cbeDecode(doc, cfg, true)
			if derr != nil {
				r.out.Count("cbe-rejected:" + what)
				return
			}
			if hasInexactBigFloat(fromCBE) {
				id = fmt.Sprintf("%d|bigfloat-inexact", idx)
			}
			text := EventsText(fromCBE)
			r.out.Case("cbe:"+hx(doc), len(fromCBE) > 4)
			r.out.Count("cbe-accepted:" + what)
			if idx%300 < 2 {
				r.out.Sample("cbe " + what + ": " + trunc(text, 400))
			}
			cteDoc, eerr := cteEncode(fromCBE, cfg)
			if eerr != nil {
				r.out.Finding("C03", "cbe->cte:encode-error", "a document the CBE decoder and the rules accept cannot be written as CTE: "+shortE(eerr), "cbe:"+hx(doc)+" events "+trunc(text, 800))
				return
			}
			fromCTE, d2 := cteDecode(cteDoc, cfg, true)
			if d2 != nil {
				r.out.Finding("C03", "cbe->cte:unreadable", "the CTE written for an accepted CBE document is rejected by the CTE decoder+rules: "+shortE(d2),
					"cbe:"+hx(doc)+" events "+trunc(text, 600)+" cte "+trunc(strings.ReplaceAll(string(cteDoc), "\n", "\\n"), 600))
				return
			}
			r.out.Line("prop", withKey(id, "cbe->cte:data"), "CANON.EQ", []string{"2", text, EventsText(fromCTE)}, "1")
			back, e3 := cbeEncode(fromCTE, cfg)
			if e3 != nil {
				r.out.Finding("C03", "cte->cbe:encode-error", "converting the CTE back to CBE fails: "+shortE(e3), "cbe:"+hx(doc))
				return
			}
			again, d4 := cbeDecode(back, cfg, true)
			if d4 != nil {
				r.out.Finding("C03", "cte->cbe:unreadable", "the CBE converted back from CTE is rejected: "+shortE(d4), "cbe:"+hx(doc))
				return
			}
			r.out.Line("prop", withKey(id, "cbe->cte->cbe:data"), "CANON.EQ", []string{"2", text, EventsText(again)}, "1")
		default:
			// an accepted CTE text without custom text: generated documents and literal spellings
			var cteDoc []byte
			if rng.P(1, 2) {
				lits := []string{}
				for k := 0; k < 1+rng.Intn(4); k++ {
					switch rng.Intn(3) {
					case 0:
						lits = append(lits, genIntLiteral(rng))
					case 1:
						lits = append(lits, genFloatLiteral(rng))
					default:
						lits = append(lits, "\""+genStringBody(rng)+"\"")
					}
				}
				cteDoc = []byte("c0 [" + strings.Join(lits, " ") + "]")
			} else {
				gc := cteFullGenCfg()
				gc.NoCustomText = true
				g := NewGen(rng, gc)
				d, err := cteEncode(g.Doc(), cfg)
				if err != nil {
					return
				}
				cteDoc = d
			}
			fromCTE, derr := cteDecode(cteDoc, cfg, true)
			if derr != nil {
				r.out.Count("cte-rejected")
				return
			}
			for _, e := range fromCTE {
				if e.K == "ct" {
					return
				}
			}
			text := EventsText(fromCTE)
			if hasInexactBigFloat(fromCTE) {
				id = fmt.Sprintf("%d|bigfloat-inexact", idx)
			}
			r.out.Case("cte:"+string(cteDoc), len(fromCTE) > 4)
			r.out.Count("cte-accepted")
			cbeDoc, eerr := cbeEncode(fromCTE, cfg)
			if eerr != nil {
				r.out.Finding("C03", "cte->cbe:encode-error", "an accepted CTE document without custom text cannot be written as CBE: "+shortE(eerr), trunc(string(cteDoc), 800))
				return
			}
			fromCBE, d2 := cbeDecode(cbeDoc, cfg, true)
			if d2 != nil {
				r.out.Finding("C03", "cte->cbe:unreadable", "the CBE written for an accepted CTE document is rejected: "+shortE(d2), trunc(string(cteDoc), 800))
				return
			}
			// comments do not survive in CBE
			r.out.Line("prop", withKey(id, "cte->cbe:data"), "CANON.EQ", []string{"0", text, EventsText(fromCBE)}, "1")
		}
	})
}

// code points that stress the escaping decision of the encoder and the string modes of the lexer
var nastyRunes = []rune{0x00, 0x01, 0x08, 0x09, 0x0a, 0x0b, 0x0c, 0x0d, 0x1b, 0x1f, 0x20, 0x22, 0x27, 0x2a, 0x2f, 0x5c, 0x7f,
	0x80, 0x85, 0x9f, 0xa0, 0xad, 0x2028, 0x2029, 0x200b, 0x200e, 0xfeff, 0xfffd, 0xfffe, 0xffff, 0xe000, 0xf8ff, 0x10ffff, 0x1f600,
	0x301, 0x600, 0x61c, 0xd7ff, 0x378, 0x2065, 0xe0001, 'a', 'Z', '0', '.', '[', ']', '{', '}', '@', '$', '&', '|', '=', '<', '>', '-', '_', 'n', 't', 'r'}

func nastyText(rng *Rng, n int) []byte {
	var sb strings.Builder
	for i := 0; i < n; i++ {
		sb.WriteRune(nastyRunes[rng.Intn(len(nastyRunes))])
	}
	return []byte(sb.String())
}

// nastyTextDoc: a list of strings, resource ids, custom texts, remote references and comments
// made of such code points (the rules decide what is valid: rejected streams are skipped)
func nastyTextDoc(rng *Rng) []Event {
	evs := []Event{{K: "bd"}, {K: "v"}, {K: "l"}}
	n := 1 + rng.Intn(5)
	for i := 0; i < n; i++ {
		txt := nastyText(rng, rng.Intn(8))
		switch rng.Intn(7) {
		case 0, 1:
			evs = append(evs, textDelivery(rng, 1, 0, txt)...)
		case 2:
			evs = append(evs, textDelivery(rng, 2, 0, txt)...) // resource id
		case 3:
			evs = append(evs, textDelivery(rng, 4, uint64(rng.Intn(100)), txt)...) // custom text
		case 4:
			evs = append(evs, Event{K: "cm", B: false, D: txt}, Event{K: "n"})
		case 5:
			evs = append(evs, Event{K: "cm", B: true, D: txt}, Event{K: "n"})
		default:
			evs = append(evs, textDelivery(rng, 3, 0, txt)...) // remote reference
		}
	}
	return append(evs, Event{K: "end"}, Event{K: "ed"})
}

// textDelivery: the same text as one string-typed event (half of the time), as an array of bytes,
// or as chunks split on a character boundary - the encoders take different paths for each
// (seeded change C02B3: the byte path's "needs no escaping" shortcut judged bytes, not characters)
func textDelivery(rng *Rng, at events.ArrayType, ctype uint64, txt []byte) []Event {
	form := rng.Intn(4)
	if form < 2 || (at == 4 && form == 2) {
		if at == 4 {
			return []Event{{K: "ct", N: ctype, D: txt}}
		}
		return []Event{{K: "s", AT: at, D: txt}}
	}
	if form == 2 {
		return []Event{{K: "a", AT: at, N: uint64(len(txt)), D: txt}}
	}
	var out []Event
	if at == 4 {
		out = append(out, Event{K: "cbg", AT: at, N: ctype})
	} else {
		out = append(out, Event{K: "ab", AT: at})
	}
	cut := 0
	if len(txt) > 0 {
		cut = rng.Intn(len(txt) + 1)
		for cut < len(txt) && txt[cut]&0xc0 == 0x80 {
			cut++
		}
	}
	if cut > 0 && cut < len(txt) {
		out = append(out, Event{K: "ac", N: uint64(cut), B: true}, Event{K: "ad", D: txt[:cut]})
		txt = txt[cut:]
	}
	out = append(out, Event{K: "ac", N: uint64(len(txt)), B: false})
	if len(txt) > 0 {
		out = append(out, Event{K: "ad", D: txt})
	}
	return out
}

// withKey: the finding class of a line is the part of its id after '|': a case that belongs to a
// recorded class keeps that class, any other gets the stage name
func withKey(id, stage string) string {
	if strings.Contains(id, "|") {
		return id
	}
	return id + "|" + stage
}
