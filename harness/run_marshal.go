package main

import (
	"fmt"
	"reflect"
	"strings"

	"github.com/kstenerud/go-concise-encoding/ce"
	"github.com/kstenerud/go-concise-encoding/configuration"
)

func init() {
	runners["C04"] = runC04
}

// featureKey: the recorded-finding class of a case (first problematic feature), "" for the core.
var problemFeatures = []string{"edge", "node", "int-slice", "bool-slice", "nil-container", "pointer-to-container", "pointer-to-pointer", "zero-length-array", "byte-array", "media"}

func featureKey(fs []string) string {
	for _, p := range problemFeatures {
		for _, f := range fs {
			if f == p {
				return p
			}
		}
	}
	return ""
}

// C04: marshal then unmarshal returns an equal Go value.
func runC04(r *Run) {
	cfg := configuration.New()
	r.each(func(idx int, rng *Rng) {
		var tg *TyGen
		if idx%3 == 0 {
			tg = NewTyGen(rng, "all")
		} else {
			tg = NewTyGen(rng, "none")
		}
		depth := 1 + rng.Intn(3)
		ty := tg.GenType(depth)
		val := tg.GenValue(ty, depth)
		tg.ScanType(ty)
		key := featureKey(tg.Features())
		desc := fmt.Sprintf("%s = %s", ty.String(), dumpValue(val.Interface()))
		if len(desc) > 1500 {
			desc = desc[:1500]
		}
		r.out.Case(desc, true)
		for _, f := range tg.Features() {
			r.out.Count("feature:" + f)
		}
		r.out.Count("population:" + key)
		if idx%60 == 0 {
			r.out.Sample(desc)
		}
		template := reflect.Zero(ty).Interface()
		for _, format := range []string{"cbe", "cte"} {
			var doc []byte
			var err error
			var pan interface{}
			d, merr, mp := safeCall(func() (interface{}, error) {
				if format == "cbe" {
					return ce.MarshalToCBEDocument(val.Interface(), cfg)
				}
				return ce.MarshalToCTEDocument(val.Interface(), cfg)
			})
			err, pan = merr, mp
			if pan != nil || err != nil {
				r.out.Finding("C04", joinKey(key, "marshal-error"), fmt.Sprintf("marshaling a supported value to %s fails: %v %v", format, shortE(err), pan), desc)
				continue
			}
			doc = d.([]byte)
			got, uerr, up := safeCall(func() (interface{}, error) {
				if format == "cbe" {
					return ce.UnmarshalFromCBEDocument(doc, template, cfg)
				}
				return ce.UnmarshalFromCTEDocument(doc, template, cfg)
			})
			if up != nil {
				r.out.Finding("C04", joinKey(key, "unmarshal-panic"), fmt.Sprintf("unmarshaling the marshaled %s document panics: %v", format, up), desc+" doc="+docText(format, doc))
				continue
			}
			if uerr != nil {
				r.out.Finding("C04", joinKey(key, "unmarshal-error"), fmt.Sprintf("the %s document the marshaler wrote does not unmarshal into its own type: %s", format, shortE(uerr)), desc+" doc="+docText(format, doc))
				continue
			}
			gv := reflect.ValueOf(got)
			// structs and arrays come back as pointers
			if gv.IsValid() && gv.Kind() == reflect.Ptr && ty.Kind() != reflect.Ptr && gv.Type().Elem() == ty {
				gv = gv.Elem()
			}
			if ok, why := equalValues(val, gv, "v"); !ok {
				r.out.Finding("C04", joinKey(key, "not-equal"), fmt.Sprintf("%s round trip changes the value at %s", format, why), desc+" doc="+docText(format, doc)+" got="+dumpValue(got))
			}
		}
	})
}

func shortE(err error) string {
	if err == nil {
		return ""
	}
	return shortErr(err)
}

func docText(format string, doc []byte) string {
	if format == "cte" {
		s := strings.ReplaceAll(string(doc), "\n", "\\n")
		if len(s) > 600 {
			s = s[:600]
		}
		return s
	}
	h := hx(doc)
	if len(h) > 600 {
		h = h[:600]
	}
	return h
}
