package main

import (
	"flag"
	"fmt"
	"os"
	"strconv"
)

type Run struct {
	Prop  string
	N     int
	Seed  uint64
	Shard int
	Of    int
	Tier  string
	Only  int
	out   *Out
	cur   *os.File
}

var runners = map[string]func(*Run){}

func main() {
	prop := flag.String("prop", "", "property id (C01 …) or sub-command")
	n := flag.Int("n", 1000, "number of generated cases (all shards together)")
	seed := flag.Uint64("seed", 1, "VERIF_SEED")
	shard := flag.Int("shard", 0, "shard index")
	of := flag.Int("of", 1, "shard count")
	tier := flag.String("tier", "quick", "quick|thorough")
	outPath := flag.String("out", "", "case file for the Lean driver")
	only := flag.Int("only", -1, "run only this case index (replay)")
	flag.Parse()
	if s := os.Getenv("VERIF_SEED"); s != "" && !isFlagSet("seed") {
		if v, err := strconv.ParseUint(s, 10, 64); err == nil {
			*seed = v
		}
	}
	fn, ok := runners[*prop]
	if !ok {
		die("unknown -prop %q", *prop)
	}
	if *outPath == "" {
		die("-out required")
	}
	r := &Run{Prop: *prop, N: *n, Seed: *seed, Shard: *shard, Of: *of, Tier: *tier}
	r.out = NewOut(*outPath)
	r.Only = *only
	fn(r)
	r.out.Close(*outPath + ".meta.json")
	fmt.Printf("%s shard %d/%d: %d lines, %d cases\n", *prop, *shard, *of, r.out.Lines, r.out.Stats["cases"])
}

func isFlagSet(name string) bool {
	set := false
	flag.Visit(func(f *flag.Flag) {
		if f.Name == name {
			set = true
		}
	})
	return set
}

// each calls fn for the case indices of this shard.
func (r *Run) each(fn func(idx int, rng *Rng)) {
	if r.Only >= 0 {
		fn(r.Only, NewRng(r.Seed, uint64(r.Only)))
		return
	}
	for i := r.Shard; i < r.N; i += r.Of {
		fn(i, NewRng(r.Seed, uint64(i)))
	}
}

// noteCurrent records (and flushes) the call about to be made, so that bin/check can name the
// input when the process is killed by a Go fatal error (stack overflow, out of memory).
func (r *Run) noteCurrent(idx int, what string, input []byte) {
	if r.cur == nil {
		r.cur, _ = os.Create(r.out.f.Name() + ".current")
	}
	r.cur.Truncate(0)
	r.cur.Seek(0, 0)
	h := hx(input)
	if len(h) > 400 {
		h = h[:400] + fmt.Sprintf("...(%d bytes)", len(input))
	}
	fmt.Fprintf(r.cur, "%d\t%s\t%s\n", idx, what, h)
	r.cur.Sync()
}

func (r *Run) clearCurrent() {
	if r.cur != nil {
		r.cur.Truncate(0)
	}
}
