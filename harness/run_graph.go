package main

// C20: shared and cyclic pointers survive a round trip with recursion support.
//
// Random pointer graphs over struct, slice and map nodes with random sharing and back-edges
// (self-loops included): marshaling with Iterator.RecursionSupport must terminate, and
// unmarshaling the result must give a graph of the same shape — checked by a parallel walk
// that builds the bijection between the two graphs (same sharing, same cycles, equal values).

import (
	"fmt"
	"reflect"
	"sort"
	"strings"
	"time"

	"github.com/kstenerud/go-concise-encoding/ce"
	"github.com/kstenerud/go-concise-encoding/configuration"
)

func init() {
	runners["C20"] = runC20
}

type GNode struct {
	ID     int
	Next   *GNode
	Alt    *GNode
	Kids   []*GNode
	ByName map[string]*GNode
	IDPtr  *int // may point at the ID field of a node: same address as that node, another type
	Attrs  map[string]int // a map of scalars, possibly the same map in several nodes (cannot be cyclic, can be shared)
}

// descriptor of a graph: node i -> next, alt (-1 = nil), kids, named
type graphDesc struct {
	n     int
	next  []int
	alt   []int
	kids  [][]int
	named []map[string]int
	idptr []int // -1 nil, else the node whose ID field is pointed at
	attrs []int // -1 nil, else the number of the scalar map the node holds (same number = same map)
	root  int
}

func genGraph(rng *Rng, maxNodes int, features int) graphDesc {
	n := 1 + rng.Intn(maxNodes)
	g := graphDesc{n: n, next: make([]int, n), alt: make([]int, n), kids: make([][]int, n), named: make([]map[string]int, n), idptr: make([]int, n), attrs: make([]int, n)}
	pick := func() int {
		if rng.P(1, 3) {
			return -1
		}
		return rng.Intn(n)
	}
	for i := 0; i < n; i++ {
		g.next[i] = pick()
		g.alt[i] = -1
		if features >= 1 {
			g.alt[i] = pick()
		}
		g.idptr[i] = -1
		if features >= 3 && rng.P(1, 3) {
			g.idptr[i] = rng.Intn(n)
		}
		g.attrs[i] = -1
		if features >= 3 && rng.P(1, 3) {
			g.attrs[i] = rng.Intn(2)
		}
		if features >= 2 && rng.P(1, 2) {
			// up to 12 elements: the destination slice is reallocated while it is being built
			k := rng.Intn(4)
			if rng.P(1, 3) {
				k = 4 + rng.Intn(9)
			}
			for j := 0; j < k; j++ {
				g.kids[i] = append(g.kids[i], pick())
			}
		}
		if features >= 3 && rng.P(1, 3) {
			g.named[i] = map[string]int{}
			k := 1 + rng.Intn(3)
			for j := 0; j < k; j++ {
				g.named[i][fmt.Sprintf("k%d", j)] = pick()
			}
		}
	}
	return g
}

func (g graphDesc) build() *GNode {
	nodes := make([]*GNode, g.n)
	for i := range nodes {
		nodes[i] = &GNode{ID: 100 + i}
	}
	at := func(i int) *GNode {
		if i < 0 {
			return nil
		}
		return nodes[i]
	}
	attrMaps := map[int]map[string]int{}
	for i, nd := range nodes {
		nd.Next = at(g.next[i])
		nd.Alt = at(g.alt[i])
		for _, k := range g.kids[i] {
			nd.Kids = append(nd.Kids, at(k))
		}
		if g.idptr[i] >= 0 {
			nd.IDPtr = &nodes[g.idptr[i]].ID
		}
		if g.attrs[i] >= 0 {
			if attrMaps[g.attrs[i]] == nil {
				attrMaps[g.attrs[i]] = map[string]int{"a": g.attrs[i], "b": 7}
			}
			nd.Attrs = attrMaps[g.attrs[i]]
		}
		if g.named[i] != nil {
			nd.ByName = map[string]*GNode{}
			for k, v := range g.named[i] {
				nd.ByName[k] = at(v)
			}
		}
	}
	return nodes[g.root]
}

func (g graphDesc) text() string {
	var sb strings.Builder
	fmt.Fprintf(&sb, "root=%d", g.root)
	for i := 0; i < g.n; i++ {
		fmt.Fprintf(&sb, " %d:{next=%d alt=%d kids=%v idptr=%d attrs=%d", i, g.next[i], g.alt[i], g.kids[i], g.idptr[i], g.attrs[i])
		if g.named[i] != nil {
			keys := make([]string, 0)
			for k := range g.named[i] {
				keys = append(keys, k)
			}
			sort.Strings(keys)
			sb.WriteString(" named=")
			for _, k := range keys {
				fmt.Fprintf(&sb, "%s:%d,", k, g.named[i][k])
			}
		}
		sb.WriteString("}")
	}
	return sb.String()
}

// isomorphic: parallel walk building the bijection a -> b
func isomorphic(a, b *GNode) (bool, string) {
	fwd := map[*GNode]*GNode{}
	bwd := map[*GNode]*GNode{}
	ifwd := map[*int]*int{} // shared *int pointers stay shared among themselves
	ibwd := map[*int]*int{}
	mfwd := map[uintptr]uintptr{} // scalar maps: the same map object stays one map object
	mbwd := map[uintptr]uintptr{}
	var walk func(x, y *GNode, path string) (bool, string)
	walk = func(x, y *GNode, path string) (bool, string) {
		if x == nil || y == nil {
			if x == nil && y == nil {
				return true, ""
			}
			return false, path + ": nil on one side only"
		}
		if m, ok := fwd[x]; ok {
			if m != y {
				return false, path + ": a shared/cyclic pointer is a different object after the round trip"
			}
			return true, ""
		}
		if _, ok := bwd[y]; ok {
			return false, path + ": two distinct objects became one"
		}
		fwd[x], bwd[y] = y, x
		if x.ID != y.ID {
			return false, fmt.Sprintf("%s: ID %d vs %d", path, x.ID, y.ID)
		}
		if (x.IDPtr == nil) != (y.IDPtr == nil) {
			return false, path + ".IDPtr: nil on one side only"
		}
		if x.IDPtr != nil {
			if *x.IDPtr != *y.IDPtr {
				return false, fmt.Sprintf("%s.IDPtr: points at %d vs %d", path, *x.IDPtr, *y.IDPtr)
			}
			if m, ok := ifwd[x.IDPtr]; ok && m != y.IDPtr {
				return false, path + ".IDPtr: a shared pointer is a different object after the round trip"
			}
			if m, ok := ibwd[y.IDPtr]; ok && m != x.IDPtr {
				return false, path + ".IDPtr: two distinct pointers became one"
			}
			ifwd[x.IDPtr], ibwd[y.IDPtr] = y.IDPtr, x.IDPtr
		}
		if len(x.Attrs) != len(y.Attrs) {
			return false, fmt.Sprintf("%s.Attrs: %d vs %d entries", path, len(x.Attrs), len(y.Attrs))
		}
		for k, v := range x.Attrs {
			if w, ok := y.Attrs[k]; !ok || w != v {
				return false, fmt.Sprintf("%s.Attrs[%s] differs", path, k)
			}
		}
		if len(x.Attrs) > 0 {
			px, py := reflect.ValueOf(x.Attrs).Pointer(), reflect.ValueOf(y.Attrs).Pointer()
			if m, ok := mfwd[px]; ok && m != py {
				return false, path + ".Attrs: a shared map is a different map after the round trip"
			}
			if m, ok := mbwd[py]; ok && m != px {
				return false, path + ".Attrs: two distinct maps became one"
			}
			mfwd[px], mbwd[py] = py, px
		}
		if ok, why := walk(x.Next, y.Next, path+".Next"); !ok {
			return false, why
		}
		if ok, why := walk(x.Alt, y.Alt, path+".Alt"); !ok {
			return false, why
		}
		if len(x.Kids) != len(y.Kids) {
			return false, fmt.Sprintf("%s.Kids: %d vs %d elements", path, len(x.Kids), len(y.Kids))
		}
		for i := range x.Kids {
			if ok, why := walk(x.Kids[i], y.Kids[i], fmt.Sprintf("%s.Kids[%d]", path, i)); !ok {
				return false, why
			}
		}
		if len(x.ByName) != len(y.ByName) {
			return false, fmt.Sprintf("%s.ByName: %d vs %d entries", path, len(x.ByName), len(y.ByName))
		}
		for k, v := range x.ByName {
			w, ok := y.ByName[k]
			if !ok {
				return false, fmt.Sprintf("%s.ByName[%s] missing", path, k)
			}
			if ok, why := walk(v, w, fmt.Sprintf("%s.ByName[%s]", path, k)); !ok {
				return false, why
			}
		}
		return true, ""
	}
	return walk(a, b, "root")
}

func runC20(r *Run) {
	cfg := configuration.New()
	cfg.Iterator.RecursionSupport = true
	r.each(func(idx int, rng *Rng) {
		maxN := 12
		if r.Tier == "thorough" {
			maxN = 60
		}
		features := idx % 4 // 0: Next only, 1: +Alt, 2: +slices, 3: +maps
		g := genGraph(rng, maxN, features)
		root := g.build()
		text := g.text()
		r.out.Case(text, g.n > 1)
		r.out.Count(fmt.Sprintf("features:%d", features))
		for _, format := range []string{"cbe", "cte"} {
			key := fmt.Sprintf("f%d:%s", features, format)
			res, hung := withWatchdog(120*time.Second, func() string {
				var doc []byte
				var err error
				if format == "cbe" {
					doc, err = ce.MarshalToCBEDocument(root, cfg)
				} else {
					doc, err = ce.MarshalToCTEDocument(root, cfg)
				}
				if err != nil {
					return "MARSHAL-ERR " + shortE(err)
				}
				var back interface{}
				if format == "cbe" {
					back, err = ce.UnmarshalFromCBEDocument(doc, (*GNode)(nil), cfg)
				} else {
					back, err = ce.UnmarshalFromCTEDocument(doc, (*GNode)(nil), cfg)
				}
				if err != nil {
					return "UNMARSHAL-ERR " + shortE(err) + " doc=" + docText(format, doc)
				}
				bn, ok := back.(*GNode)
				if !ok {
					if bv := reflect.ValueOf(back); bv.IsValid() && bv.Kind() == reflect.Ptr && bv.Type().Elem() == reflect.TypeOf((*GNode)(nil)) && !bv.IsNil() {
						bn, ok = bv.Elem().Interface().(*GNode)
					}
				}
				if !ok {
					return fmt.Sprintf("TYPE %T", back)
				}
				if same, why := isomorphic(root, bn); !same {
					return "SHAPE " + why + " doc=" + docText(format, doc)
				}
				return "ok"
			})
			switch {
			case hung:
				r.out.Finding("C20", "hang:"+key, "marshal/unmarshal of a pointer graph with recursion support does not terminate", text)
			case strings.HasPrefix(res, "PANIC"):
				r.out.Finding("C20", "panic:"+key, res, text)
			case strings.HasPrefix(res, "MARSHAL-ERR"):
				r.out.Finding("C20", "marshal-error:"+key, res, text)
			case strings.HasPrefix(res, "UNMARSHAL-ERR"):
				r.out.Finding("C20", "unmarshal-error:"+key, trunc(res, 500), text)
			case res != "ok":
				r.out.Finding("C20", "shape:"+key, trunc(res, 500), text)
			}
		}
		if idx%101 == 0 {
			r.out.Sample(text)
		}
		// model correspondence (no maps: Go's map order is random): the events of the real iterator,
		// every field written (omit never), in the abstract alphabet of CE/Marshal/Graph.lean
		if features <= 2 {
			c2 := configuration.New()
			c2.Iterator.RecursionSupport = true
			c2.Iterator.DefaultFieldOmitBehavior = configuration.OmitFieldNever
			evsCh := make(chan []Event, 1)
			go func() {
				evs, err := iterateReal(root, c2)
				if err != nil {
					evsCh <- nil
					return
				}
				evsCh <- evs
			}()
			select {
			case evs := <-evsCh:
				if evs != nil {
					r.out.Line("corr", fmt.Sprintf("%d", idx), "GRAPH.EMIT", []string{fmt.Sprintf("%d", g.root), g.cells()}, abstractGraphEvents(evs))
				}
			case <-time.After(120 * time.Second):
				r.out.Finding("C20", "hang:iterate", "iterating a pointer graph with recursion support does not terminate", text)
			}
		}
	})
}

func (g graphDesc) cells() string {
	var parts []string
	for i := 0; i < g.n; i++ {
		ks := "-"
		if g.kids[i] != nil {
			var k []string
			for _, x := range g.kids[i] {
				k = append(k, fmt.Sprintf("%d", x))
			}
			ks = strings.Join(k, ",")
		}
		parts = append(parts, fmt.Sprintf("%d,%d|%s", g.next[i], g.alt[i], ks))
	}
	return strings.Join(parts, ";")
}

// abstractGraphEvents: M<i> marker on node i, R<i> reference to node i, N<i> node body begins,
// ")" node ends, "0" nil, "[" "]" the Kids slice; the always-nil ByName field is dropped.
func abstractGraphEvents(evs []Event) string {
	var out []string
	markerNode := map[string]int{} // marker id -> node index (known once the id field is seen)
	var pendingMarker []string
	type frame struct {
		kind string // "node" or "list"
		key  bool   // node: next token is a key
		skip bool   // node: the value of by_name follows
	}
	var stack []frame
	value := func() { // a value has been consumed in the enclosing node frame
		if n := len(stack); n > 0 && stack[n-1].kind == "node" {
			stack[n-1].key = true
		}
	}
	for _, e := range evs {
		switch e.K {
		case "bd", "v", "ed":
			continue
		}
		top := len(stack) - 1
		if top >= 0 && stack[top].kind == "node" && stack[top].key && e.K != "end" {
			// a key
			name := string(e.D)
			stack[top].key = false
			stack[top].skip = name == "by_name" || name == "id_ptr" || name == "attrs"
			if name == "id" {
				stack[top].skip = false
			}
			continue
		}
		switch e.K {
		case "mk":
			pendingMarker = append(pendingMarker, string(e.D))
		case "ref":
			out = append(out, fmt.Sprintf("R%d", markerNode[string(e.D)]))
			value()
		case "m":
			out = append(out, "N?")
			stack = append(stack, frame{kind: "node", key: true})
		case "l":
			out = append(out, "[")
			stack = append(stack, frame{kind: "list"})
		case "end":
			if stack[top].kind == "node" {
				out = append(out, ")")
			} else {
				out = append(out, "]")
			}
			stack = stack[:top]
			value()
		case "n":
			if top >= 0 && stack[top].kind == "node" && stack[top].skip {
				value()
				continue
			}
			out = append(out, "0")
			value()
		default:
			// the id value of the innermost node: fix up its N? and any pending marker
			if top >= 0 && stack[top].kind == "node" {
				var id int
				switch e.K {
				case "i":
					id = int(e.I)
				case "pi":
					id = int(e.N)
				}
				idx := id - 100
				for j := len(out) - 1; j >= 0; j-- {
					if out[j] == "N?" {
						out[j] = fmt.Sprintf("N%d", idx)
						if len(pendingMarker) > 0 {
							m := pendingMarker[len(pendingMarker)-1]
							pendingMarker = pendingMarker[:len(pendingMarker)-1]
							markerNode[m] = idx
							out = append(out[:j], append([]string{fmt.Sprintf("M%d", idx)}, out[j:]...)...)
						}
						break
					}
				}
				value()
			}
		}
	}
	return strings.Join(out, " ")
}
