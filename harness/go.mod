module verif/harness

go 1.14

require (
	github.com/cockroachdb/apd/v2 v2.0.2
	github.com/kstenerud/go-compact-float v1.6.1
	github.com/kstenerud/go-compact-time v1.8.3
	github.com/kstenerud/go-concise-encoding v0.0.0
)

replace github.com/kstenerud/go-concise-encoding => /repo
