package main

// Event: one call on events.DataEventReceiver, with its line-protocol text form
// (the same grammar as lean/CE/Event.lean).

import (
	"encoding/hex"
	"fmt"
	"math"
	"math/big"
	"strconv"
	"strings"

	"github.com/cockroachdb/apd/v2"
	compact_float "github.com/kstenerud/go-compact-float"
	compact_time "github.com/kstenerud/go-compact-time"
	"github.com/kstenerud/go-concise-encoding/ce/events"
)

type Event struct {
	K    string // token kind: bd ed v pad cm n b t f pi ni i bi fl bf df bdf uid nan tm l m rt r e nd end mk ref a s md cb ct ab mb cbg ac ad
	B    bool
	N    uint64
	I    int64
	Big  *big.Int
	F    float64
	BF   *big.Float
	DF   compact_float.DFloat
	BD   *apd.Decimal
	T    compact_time.Time
	AT   events.ArrayType
	D    []byte // data / identifier / string contents
	D2   []byte // media type
	Nil  bool   // nil big number
}

var arrNames = []string{"inv", "str", "rid", "rref", "ctxt", "cbin", "bit", "u8", "u16", "u32", "u64",
	"i8", "i16", "i32", "i64", "f16", "f32", "f64", "uid", "media", "mdata"}

func arrName(t events.ArrayType) string {
	if int(t) < len(arrNames) {
		return arrNames[t]
	}
	return fmt.Sprintf("arr%d", t)
}

func arrByName(s string) (events.ArrayType, bool) {
	for i, n := range arrNames {
		if n == s {
			return events.ArrayType(i), true
		}
	}
	return 0, false
}

func b01(b bool) string {
	if b {
		return "1"
	}
	return "0"
}

func hx(b []byte) string { return hex.EncodeToString(b) }

const quietNaNBits = uint64(0x7ff8000000000000)
const signalingNaNBits = uint64(0x7ff4000000000000)

// A NaN keeps only its quiet/signalling kind on the wire to the model.
func canonFloatBits(f float64) uint64 {
	bits := math.Float64bits(f)
	if f != f {
		if bits&0x0008000000000000 != 0 {
			return quietNaNBits
		}
		return signalingNaNBits
	}
	return bits
}

func zoneText(z compact_time.Timezone) string {
	switch z.Type {
	case compact_time.TimezoneTypeUnset:
		return "u"
	case compact_time.TimezoneTypeUTC:
		return "z"
	case compact_time.TimezoneTypeLocal:
		return "l"
	case compact_time.TimezoneTypeAreaLocation:
		return "a." + hx([]byte(z.LongAreaLocation))
	case compact_time.TimezoneTypeLatitudeLongitude:
		return fmt.Sprintf("g.%d.%d", z.LatitudeHundredths, z.LongitudeHundredths)
	case compact_time.TimezoneTypeUTCOffset:
		return fmt.Sprintf("o.%d", z.MinutesOffsetFromUTC)
	}
	return fmt.Sprintf("x%d", z.Type)
}

func timeText(t compact_time.Time) string {
	return fmt.Sprintf("%d:%d:%d:%d:%d:%d:%d:%d:%s", t.Type, t.Year, t.Month, t.Day, t.Hour, t.Minute, t.Second, t.Nanosecond, zoneText(t.Timezone))
}

func bigFloatText(x *big.Float) string {
	if x.IsInf() {
		return "inf:" + b01(x.Signbit())
	}
	if x.Sign() == 0 {
		return fmt.Sprintf("%s:0:0:%d", b01(x.Signbit()), x.Prec())
	}
	mant := new(big.Float)
	exp := x.MantExp(mant)
	mp := mant.MinPrec()
	mant.SetMantExp(mant, int(mp))
	mi, _ := mant.Int(nil)
	mi.Abs(mi)
	return fmt.Sprintf("%s:%s:%d:%d", b01(x.Signbit()), mi.String(), exp-int(mp), x.Prec())
}

func (e *Event) Text() string {
	switch e.K {
	case "bd", "ed", "pad", "n", "t", "f", "l", "m", "e", "nd", "end":
		return e.K
	case "v", "pi", "ni":
		return e.K + ":" + strconv.FormatUint(e.N, 10)
	case "cm":
		return "cm:" + b01(e.B) + ":" + hx(e.D)
	case "b", "nan":
		return e.K + ":" + b01(e.B)
	case "i":
		return "i:" + strconv.FormatInt(e.I, 10)
	case "bi":
		if e.Nil {
			return "bi:nil"
		}
		return "bi:" + e.Big.String()
	case "fl":
		return fmt.Sprintf("fl:%016x", canonFloatBits(e.F))
	case "bf":
		if e.Nil {
			return "bf:nil"
		}
		return "bf:" + bigFloatText(e.BF)
	case "df":
		d := e.DF
		if d.IsSpecial() {
			switch d.Coefficient {
			case compact_float.CoeffNegativeZero:
				return "df:nz"
			case compact_float.CoeffInfinity:
				return "df:inf"
			case compact_float.CoeffNegativeInfinity:
				return "df:ninf"
			case compact_float.CoeffNan:
				return "df:nan"
			case compact_float.CoeffSignalingNan:
				return "df:snan"
			}
			return fmt.Sprintf("df:special%d", d.Coefficient)
		}
		return fmt.Sprintf("df:%d:%d", d.Exponent, d.Coefficient)
	case "bdf":
		if e.Nil {
			return "bdf:nil"
		}
		switch e.BD.Form {
		case apd.Infinite:
			return "bdf:inf:" + b01(e.BD.Negative)
		case apd.NaN:
			return "bdf:nan"
		case apd.NaNSignaling:
			return "bdf:snan"
		}
		return fmt.Sprintf("bdf:%s:%s:%d", b01(e.BD.Negative), e.BD.Coeff.String(), e.BD.Exponent)
	case "uid", "rt", "r", "mk", "ref", "ad":
		return e.K + ":" + hx(e.D)
	case "tm":
		return "tm:" + timeText(e.T)
	case "a":
		return fmt.Sprintf("a:%s:%d:%s", arrName(e.AT), e.N, hx(e.D))
	case "s":
		return "s:" + arrName(e.AT) + ":" + hx(e.D)
	case "md":
		return "md:" + hx(e.D2) + ":" + hx(e.D)
	case "cb", "ct":
		return fmt.Sprintf("%s:%d:%s", e.K, e.N, hx(e.D))
	case "ab":
		return "ab:" + arrName(e.AT)
	case "mb":
		return "mb:" + hx(e.D2)
	case "cbg":
		return fmt.Sprintf("cbg:%s:%d", arrName(e.AT), e.N)
	case "ac":
		return fmt.Sprintf("ac:%d:%s", e.N, b01(e.B))
	}
	return "?" + e.K
}

func EventsText(evs []Event) string {
	var sb strings.Builder
	for i := range evs {
		if i > 0 {
			sb.WriteByte(' ')
		}
		sb.WriteString(evs[i].Text())
	}
	return sb.String()
}

func cloneBytes(b []byte) []byte {
	c := make([]byte, len(b))
	copy(c, b)
	return c
}

// Send delivers the event to a receiver (fresh copies of byte data and big numbers,
// so a receiver that mutates its argument cannot disturb the recorded stream).
func (e *Event) Send(r events.DataEventReceiver) {
	switch e.K {
	case "bd":
		r.OnBeginDocument()
	case "ed":
		r.OnEndDocument()
	case "v":
		r.OnVersion(e.N)
	case "pad":
		r.OnPadding()
	case "cm":
		r.OnComment(e.B, cloneBytes(e.D))
	case "n":
		r.OnNull()
	case "b":
		r.OnBoolean(e.B)
	case "t":
		r.OnTrue()
	case "f":
		r.OnFalse()
	case "pi":
		r.OnPositiveInt(e.N)
	case "ni":
		r.OnNegativeInt(e.N)
	case "i":
		r.OnInt(e.I)
	case "bi":
		if e.Nil {
			r.OnBigInt(nil)
		} else {
			r.OnBigInt(new(big.Int).Set(e.Big))
		}
	case "fl":
		r.OnFloat(e.F)
	case "bf":
		if e.Nil {
			r.OnBigFloat(nil)
		} else {
			r.OnBigFloat(new(big.Float).Copy(e.BF))
		}
	case "df":
		r.OnDecimalFloat(e.DF)
	case "bdf":
		if e.Nil {
			r.OnBigDecimalFloat(nil)
		} else {
			r.OnBigDecimalFloat(new(apd.Decimal).Set(e.BD))
		}
	case "uid":
		r.OnUID(cloneBytes(e.D))
	case "nan":
		r.OnNan(e.B)
	case "tm":
		r.OnTime(e.T)
	case "l":
		r.OnList()
	case "m":
		r.OnMap()
	case "rt":
		r.OnRecordType(cloneBytes(e.D))
	case "r":
		r.OnRecord(cloneBytes(e.D))
	case "e":
		r.OnEdge()
	case "nd":
		r.OnNode()
	case "end":
		r.OnEndContainer()
	case "mk":
		r.OnMarker(cloneBytes(e.D))
	case "ref":
		r.OnReferenceLocal(cloneBytes(e.D))
	case "a":
		r.OnArray(e.AT, e.N, cloneBytes(e.D))
	case "s":
		r.OnStringlikeArray(e.AT, string(e.D))
	case "md":
		r.OnMedia(string(e.D2), cloneBytes(e.D))
	case "cb":
		r.OnCustomBinary(e.N, cloneBytes(e.D))
	case "ct":
		r.OnCustomText(e.N, string(e.D))
	case "ab":
		r.OnArrayBegin(e.AT)
	case "mb":
		r.OnMediaBegin(string(e.D2))
	case "cbg":
		r.OnCustomBegin(e.AT, e.N)
	case "ac":
		r.OnArrayChunk(e.N, e.B)
	case "ad":
		r.OnArrayData(cloneBytes(e.D))
	default:
		panic("unknown event kind " + e.K)
	}
}

// Recorder implements events.DataEventReceiver and records every call.
type Recorder struct {
	Evs []Event
}

func (r *Recorder) add(e Event)                   { r.Evs = append(r.Evs, e) }
func (r *Recorder) OnBeginDocument()              { r.add(Event{K: "bd"}) }
func (r *Recorder) OnEndDocument()                { r.add(Event{K: "ed"}) }
func (r *Recorder) OnVersion(v uint64)            { r.add(Event{K: "v", N: v}) }
func (r *Recorder) OnPadding()                    { r.add(Event{K: "pad"}) }
func (r *Recorder) OnComment(m bool, c []byte)    { r.add(Event{K: "cm", B: m, D: cloneBytes(c)}) }
func (r *Recorder) OnNull()                       { r.add(Event{K: "n"}) }
func (r *Recorder) OnBoolean(v bool)              { r.add(Event{K: "b", B: v}) }
func (r *Recorder) OnTrue()                       { r.add(Event{K: "t"}) }
func (r *Recorder) OnFalse()                      { r.add(Event{K: "f"}) }
func (r *Recorder) OnPositiveInt(v uint64)        { r.add(Event{K: "pi", N: v}) }
func (r *Recorder) OnNegativeInt(v uint64)        { r.add(Event{K: "ni", N: v}) }
func (r *Recorder) OnInt(v int64)                 { r.add(Event{K: "i", I: v}) }
func (r *Recorder) OnFloat(v float64)             { r.add(Event{K: "fl", F: v}) }
func (r *Recorder) OnNan(s bool)                  { r.add(Event{K: "nan", B: s}) }
func (r *Recorder) OnUID(v []byte)                { r.add(Event{K: "uid", D: cloneBytes(v)}) }
func (r *Recorder) OnTime(v compact_time.Time)    { r.add(Event{K: "tm", T: v}) }
func (r *Recorder) OnList()                       { r.add(Event{K: "l"}) }
func (r *Recorder) OnMap()                        { r.add(Event{K: "m"}) }
func (r *Recorder) OnRecordType(id []byte)        { r.add(Event{K: "rt", D: cloneBytes(id)}) }
func (r *Recorder) OnRecord(id []byte)            { r.add(Event{K: "r", D: cloneBytes(id)}) }
func (r *Recorder) OnEdge()                       { r.add(Event{K: "e"}) }
func (r *Recorder) OnNode()                       { r.add(Event{K: "nd"}) }
func (r *Recorder) OnEndContainer()               { r.add(Event{K: "end"}) }
func (r *Recorder) OnMarker(id []byte)            { r.add(Event{K: "mk", D: cloneBytes(id)}) }
func (r *Recorder) OnReferenceLocal(id []byte)    { r.add(Event{K: "ref", D: cloneBytes(id)}) }
func (r *Recorder) OnError()                      {}
func (r *Recorder) OnDecimalFloat(v compact_float.DFloat) { r.add(Event{K: "df", DF: v}) }
func (r *Recorder) OnBigInt(v *big.Int) {
	if v == nil {
		r.add(Event{K: "bi", Nil: true})
	} else {
		r.add(Event{K: "bi", Big: new(big.Int).Set(v)})
	}
}
func (r *Recorder) OnBigFloat(v *big.Float) {
	if v == nil {
		r.add(Event{K: "bf", Nil: true})
	} else {
		r.add(Event{K: "bf", BF: new(big.Float).Copy(v)})
	}
}
func (r *Recorder) OnBigDecimalFloat(v *apd.Decimal) {
	if v == nil {
		r.add(Event{K: "bdf", Nil: true})
	} else {
		r.add(Event{K: "bdf", BD: new(apd.Decimal).Set(v)})
	}
}
func (r *Recorder) OnArray(t events.ArrayType, n uint64, d []byte) {
	r.add(Event{K: "a", AT: t, N: n, D: cloneBytes(d)})
}
func (r *Recorder) OnStringlikeArray(t events.ArrayType, d string) {
	r.add(Event{K: "s", AT: t, D: []byte(d)})
}
func (r *Recorder) OnMedia(mt string, d []byte) {
	r.add(Event{K: "md", D2: []byte(mt), D: cloneBytes(d)})
}
func (r *Recorder) OnCustomBinary(ct uint64, d []byte) {
	r.add(Event{K: "cb", N: ct, D: cloneBytes(d)})
}
func (r *Recorder) OnCustomText(ct uint64, d string) { r.add(Event{K: "ct", N: ct, D: []byte(d)}) }
func (r *Recorder) OnArrayBegin(t events.ArrayType)  { r.add(Event{K: "ab", AT: t}) }
func (r *Recorder) OnMediaBegin(mt string)           { r.add(Event{K: "mb", D2: []byte(mt)}) }
func (r *Recorder) OnCustomBegin(t events.ArrayType, ct uint64) {
	r.add(Event{K: "cbg", AT: t, N: ct})
}
func (r *Recorder) OnArrayChunk(n uint64, more bool) { r.add(Event{K: "ac", N: n, B: more}) }
func (r *Recorder) OnArrayData(d []byte)             { r.add(Event{K: "ad", D: cloneBytes(d)}) }

// ParseEvents reads the text form back (used by --replay).
func ParseEvents(s string) ([]Event, error) {
	var out []Event
	for _, tok := range strings.Fields(s) {
		e, err := parseEvent(tok)
		if err != nil {
			return nil, fmt.Errorf("%q: %v", tok, err)
		}
		out = append(out, e)
	}
	return out, nil
}

func unhx(s string) ([]byte, error) { return hex.DecodeString(s) }

func parseEvent(tok string) (Event, error) {
	p := strings.Split(tok, ":")
	k := p[0]
	e := Event{K: k}
	var err error
	need := func(n int) error {
		if len(p) != n {
			return fmt.Errorf("want %d fields", n)
		}
		return nil
	}
	switch k {
	case "bd", "ed", "pad", "n", "t", "f", "l", "m", "e", "nd", "end":
		return e, need(1)
	case "v", "pi", "ni":
		if err = need(2); err != nil {
			return e, err
		}
		e.N, err = strconv.ParseUint(p[1], 10, 64)
		return e, err
	case "cm":
		if err = need(3); err != nil {
			return e, err
		}
		e.B = p[1] == "1"
		e.D, err = unhx(p[2])
		return e, err
	case "b", "nan":
		e.B = p[1] == "1"
		return e, need(2)
	case "i":
		e.I, err = strconv.ParseInt(p[1], 10, 64)
		return e, err
	case "bi":
		if p[1] == "nil" {
			e.Nil = true
			return e, nil
		}
		var ok bool
		e.Big, ok = new(big.Int).SetString(p[1], 10)
		if !ok {
			return e, fmt.Errorf("bad bigint")
		}
		return e, nil
	case "fl":
		var bits uint64
		bits, err = strconv.ParseUint(p[1], 16, 64)
		e.F = math.Float64frombits(bits)
		return e, err
	case "bf":
		if p[1] == "nil" {
			e.Nil = true
			return e, nil
		}
		if p[1] == "inf" {
			e.BF = new(big.Float).SetInf(p[2] == "1")
			return e, nil
		}
		if err = need(5); err != nil {
			return e, err
		}
		m, ok := new(big.Int).SetString(p[2], 10)
		if !ok {
			return e, fmt.Errorf("bad mantissa")
		}
		ex, _ := strconv.Atoi(p[3])
		prec, _ := strconv.Atoi(p[4])
		f := new(big.Float).SetPrec(uint(prec)).SetInt(m)
		f.SetMantExp(f, ex)
		if p[1] == "1" {
			f.Neg(f)
		}
		e.BF = f
		return e, nil
	case "df":
		switch p[1] {
		case "nz":
			e.DF = compact_float.NegativeZero()
		case "inf":
			e.DF = compact_float.Infinity()
		case "ninf":
			e.DF = compact_float.NegativeInfinity()
		case "nan":
			e.DF = compact_float.QuietNaN()
		case "snan":
			e.DF = compact_float.SignalingNaN()
		default:
			if err = need(3); err != nil {
				return e, err
			}
			ex, _ := strconv.ParseInt(p[1], 10, 32)
			c, _ := strconv.ParseInt(p[2], 10, 64)
			e.DF = compact_float.DFloat{Exponent: int32(ex), Coefficient: c}
		}
		return e, nil
	case "bdf":
		switch p[1] {
		case "nil":
			e.Nil = true
		case "nan":
			e.BD = &apd.Decimal{Form: apd.NaN}
		case "snan":
			e.BD = &apd.Decimal{Form: apd.NaNSignaling}
		case "inf":
			e.BD = &apd.Decimal{Form: apd.Infinite, Negative: p[2] == "1"}
		default:
			if err = need(4); err != nil {
				return e, err
			}
			c, ok := new(big.Int).SetString(p[2], 10)
			if !ok {
				return e, fmt.Errorf("bad coeff")
			}
			ex, _ := strconv.ParseInt(p[3], 10, 32)
			e.BD = apd.NewWithBigInt(c, int32(ex))
			e.BD.Negative = p[1] == "1"
		}
		return e, nil
	case "uid", "rt", "r", "mk", "ref", "ad":
		e.D, err = unhx(p[1])
		return e, err
	case "tm":
		if err = need(10); err != nil {
			return e, err
		}
		iv := func(s string) int { v, _ := strconv.Atoi(s); return v }
		t := compact_time.Time{Type: compact_time.TimeType(iv(p[1])), Year: iv(p[2]), Month: uint8(iv(p[3])), Day: uint8(iv(p[4])),
			Hour: uint8(iv(p[5])), Minute: uint8(iv(p[6])), Second: uint8(iv(p[7])), Nanosecond: uint32(iv(p[8]))}
		z := strings.Split(p[9], ".")
		switch z[0] {
		case "u":
		case "z":
			t.Timezone = compact_time.TZAtUTC()
		case "l":
			t.Timezone = compact_time.TZLocal()
		case "a":
			name, _ := unhx(z[1])
			t.Timezone = compact_time.TZAtAreaLocation(string(name))
		case "g":
			t.Timezone = compact_time.TZAtLatLong(iv(z[1]), iv(z[2]))
		case "o":
			t.Timezone = compact_time.TZWithMiutesOffsetFromUTC(iv(z[1]))
		}
		e.T = t
		return e, nil
	case "a":
		if err = need(4); err != nil {
			return e, err
		}
		var ok bool
		if e.AT, ok = arrByName(p[1]); !ok {
			return e, fmt.Errorf("bad array type")
		}
		e.N, _ = strconv.ParseUint(p[2], 10, 64)
		e.D, err = unhx(p[3])
		return e, err
	case "s":
		var ok bool
		if e.AT, ok = arrByName(p[1]); !ok {
			return e, fmt.Errorf("bad array type")
		}
		e.D, err = unhx(p[2])
		return e, err
	case "md":
		e.D2, _ = unhx(p[1])
		e.D, err = unhx(p[2])
		return e, err
	case "cb", "ct":
		e.N, _ = strconv.ParseUint(p[1], 10, 64)
		e.D, err = unhx(p[2])
		return e, err
	case "ab":
		var ok bool
		if e.AT, ok = arrByName(p[1]); !ok {
			return e, fmt.Errorf("bad array type")
		}
		return e, nil
	case "mb":
		e.D2, err = unhx(p[1])
		return e, err
	case "cbg":
		var ok bool
		if e.AT, ok = arrByName(p[1]); !ok {
			return e, fmt.Errorf("bad array type")
		}
		e.N, _ = strconv.ParseUint(p[2], 10, 64)
		return e, nil
	case "ac":
		e.N, _ = strconv.ParseUint(p[1], 10, 64)
		e.B = p[2] == "1"
		return e, nil
	}
	return e, fmt.Errorf("unknown kind")
}
