package main

// Reflect-based generator of Go types and values for the marshal/unmarshal properties
// (C04, C05, C18, C20, C21).

import (
	"fmt"
	"math"
	"math/big"
	"net/url"
	"reflect"
	"sort"
	"strings"
	"time"

	"github.com/cockroachdb/apd/v2"
	compact_float "github.com/kstenerud/go-compact-float"
	compact_time "github.com/kstenerud/go-compact-time"
	"github.com/kstenerud/go-concise-encoding/types"
)

type TyGen struct {
	r        *Rng
	features map[string]bool
	allow    map[string]bool // optional features allowed in this case
	nextName int
	ptrs     []reflect.Value // pointer pool for sharing (C20)
}

func NewTyGen(r *Rng, allow ...string) *TyGen {
	t := &TyGen{r: r, features: map[string]bool{}, allow: map[string]bool{}}
	for _, a := range allow {
		t.allow[a] = true
	}
	return t
}

func (t *TyGen) feature(f string) { t.features[f] = true }

func (t *TyGen) Features() []string {
	var out []string
	for f := range t.features {
		out = append(out, f)
	}
	sort.Strings(out)
	return out
}

var numericKinds = []reflect.Type{
	reflect.TypeOf(int8(0)), reflect.TypeOf(int16(0)), reflect.TypeOf(int32(0)), reflect.TypeOf(int64(0)), reflect.TypeOf(int(0)),
	reflect.TypeOf(uint8(0)), reflect.TypeOf(uint16(0)), reflect.TypeOf(uint32(0)), reflect.TypeOf(uint64(0)), reflect.TypeOf(uint(0)),
	reflect.TypeOf(float32(0)), reflect.TypeOf(float64(0)),
}

var (
	tyTime     = reflect.TypeOf(time.Time{})
	tyCTime    = reflect.TypeOf(compact_time.Time{})
	tyBigInt   = reflect.TypeOf(big.Int{})
	tyBigFloat = reflect.TypeOf(big.Float{})
	tyDecimal  = reflect.TypeOf(apd.Decimal{})
	tyDFloat   = reflect.TypeOf(compact_float.DFloat{})
	tyURL      = reflect.TypeOf(url.URL{})
	tyUID      = reflect.TypeOf(types.UID{})
	tyMedia    = reflect.TypeOf(types.Media{})
	tyNode     = reflect.TypeOf(types.Node{})
	tyEdge     = reflect.TypeOf(types.Edge{})
	tyIface    = reflect.TypeOf((*interface{})(nil)).Elem()
	tyString   = reflect.TypeOf("")
	tyBool     = reflect.TypeOf(false)
)

func (t *TyGen) scalarType() reflect.Type {
	switch t.r.Intn(6) {
	case 0:
		return tyBool
	case 1, 2:
		return numericKinds[t.r.Intn(len(numericKinds))]
	case 3:
		return tyString
	default:
		return numericKinds[t.r.Intn(len(numericKinds))]
	}
}

func (t *TyGen) keyType() reflect.Type {
	switch t.r.Intn(4) {
	case 0:
		return tyString
	case 1:
		return numericKinds[t.r.Intn(10)] // integers only
	case 2:
		return tyString
	default:
		return tyBool
	}
}

func (t *TyGen) special() (reflect.Type, string) {
	opts := []struct {
		ty reflect.Type
		f  string
	}{
		{tyTime, "gotime"}, {tyCTime, "ctime"}, {tyBigInt, "bigint"}, {reflect.PtrTo(tyBigInt), "bigint"},
		{tyBigFloat, "bigfloat"}, {reflect.PtrTo(tyBigFloat), "bigfloat"}, {tyDecimal, "apd"}, {reflect.PtrTo(tyDecimal), "apd"},
		{tyDFloat, "dfloat"}, {tyURL, "url"}, {reflect.PtrTo(tyURL), "url"}, {tyUID, "uid"}, {tyMedia, "media"},
		{tyNode, "node"}, {tyEdge, "edge"}, {tyIface, "interface"},
	}
	for tries := 0; tries < 20; tries++ {
		o := opts[t.r.Intn(len(opts))]
		if len(t.allow) == 0 || t.allow[o.f] || t.allow["all"] {
			return o.ty, o.f
		}
	}
	return tyString, ""
}

// GenType builds a random supported type of bounded depth.
func (t *TyGen) GenType(depth int) reflect.Type {
	k := t.r.Intn(16)
	if depth <= 0 && k >= 6 {
		k = t.r.Intn(6)
	}
	switch {
	case k <= 3:
		return t.scalarType()
	case k == 4:
		// typed numeric slice / array / byte slice / bool slice
		el := numericKinds[t.r.Intn(len(numericKinds))]
		if t.r.P(1, 8) {
			el = tyBool
		}
		if el == tyBool {
			t.feature("bool-slice")
		}
		if el.Kind() == reflect.Int || el.Kind() == reflect.Uint {
			t.feature("int-slice")
		}
		if t.r.P(1, 3) {
			t.feature("array")
			n := t.r.Intn(20)
			if n == 0 {
				t.feature("zero-length-array")
			}
			if el.Kind() == reflect.Uint8 {
				t.feature("byte-array")
			}
			return reflect.ArrayOf(n, el)
		}
		return reflect.SliceOf(el)
	case k == 5:
		ty, f := t.special()
		if f != "" {
			t.feature(f)
		}
		return ty
	case k <= 7:
		return reflect.SliceOf(t.GenType(depth - 1))
	case k == 8:
		t.feature("array")
		n := t.r.Intn(7)
		if n == 0 {
			t.feature("zero-length-array")
		}
		if t.r.P(1, 2) {
			// arrays of elements that can be nil: each nil must keep its own position
			// (seeded change C04A3: a null element did not advance the array builder's index)
			t.feature("array-of-nullable")
			el := []reflect.Type{reflect.PtrTo(numericKinds[t.r.Intn(len(numericKinds))]), reflect.SliceOf(tyString),
				reflect.MapOf(tyString, numericKinds[t.r.Intn(len(numericKinds))]), reflect.PtrTo(tyString)}[t.r.Intn(4)]
			return reflect.ArrayOf(n, el)
		}
		return reflect.ArrayOf(n, t.GenType(depth-1))
	case k <= 10:
		return reflect.MapOf(t.keyType(), t.GenType(depth-1))
	case k == 11:
		t.feature("pointer")
		el := t.GenType(depth - 1)
		switch el.Kind() {
		case reflect.Map, reflect.Slice, reflect.Array:
			t.feature("pointer-to-container")
		}
		return reflect.PtrTo(el)
	default:
		if t.r.P(1, 6) {
			t.feature("embedded-struct")
			return embeddedTypes[t.r.Intn(len(embeddedTypes))]
		}
		return t.structType(depth)
	}
}

// Declared struct types with one to four levels of embedding (reflect.StructOf cannot embed
// unnamed struct types), several exported fields at the innermost levels.
type EmbL4 struct {
	Lat int32
	Lon int32
	Tag string
}
type EmbL3 struct {
	EmbL4
	M3 uint8
	N3 string
}
type EmbL2 struct {
	EmbL3
	M2 string
}
type EmbL1 struct {
	EmbL2
	Z string
}
type EmbTwo struct {
	EmbL4
	Q float64
}

var embeddedTypes = []reflect.Type{reflect.TypeOf(EmbL1{}), reflect.TypeOf(EmbL2{}), reflect.TypeOf(EmbL3{}), reflect.TypeOf(EmbTwo{}), reflect.TypeOf(EmbL4{})}

var fieldNames = []string{"A", "Bb", "Name", "Value", "X1", "FooBar", "URLPath", "Id", "Z"}

func (t *TyGen) structType(depth int) reflect.Type {
	n := 1 + t.r.Intn(4)
	used := map[string]bool{}
	var fields []reflect.StructField
	for i := 0; i < n; i++ {
		name := fieldNames[t.r.Intn(len(fieldNames))]
		for used[strings.ToLower(name)] {
			t.nextName++
			name = fmt.Sprintf("F%d", t.nextName)
		}
		used[strings.ToLower(name)] = true
		fields = append(fields, reflect.StructField{Name: name, Type: t.GenType(depth - 1)})
	}
	t.feature("struct")
	return reflect.StructOf(fields)
}

var intBoundaryPool = []int64{0, 1, -1, 100, 101, -100, -101, 127, 128, -128, -129, 255, 256, 32767, -32768, 65535, 65536,
	math.MaxInt32, math.MinInt32, 1 << 32, 1<<48 - 1, 1 << 48, 1<<53 + 1, math.MaxInt64, math.MinInt64}

func (t *TyGen) intBits() uint64 {
	if t.r.P(1, 2) {
		return uint64(intBoundaryPool[t.r.Intn(len(intBoundaryPool))])
	}
	return t.r.Next() >> uint(t.r.Intn(64))
}

func (t *TyGen) lenPool() int {
	return []int{0, 0, 1, 2, 3, 5, 8, 15, 16, 17, 33}[t.r.Intn(11)]
}

// GenValue builds a random value of type ty.
func (t *TyGen) GenValue(ty reflect.Type, depth int) reflect.Value {
	v := reflect.New(ty).Elem()
	switch ty {
	case tyTime:
		v.Set(reflect.ValueOf(time.Date(1900+t.r.Intn(300), time.Month(1+t.r.Intn(12)), 1+t.r.Intn(28), t.r.Intn(24), t.r.Intn(60), t.r.Intn(60), t.r.Intn(1000)*1000000, time.UTC)))
		return v
	case tyCTime:
		g := NewGen(t.r, GenCfg{})
		v.Set(reflect.ValueOf(g.time()))
		return v
	case tyBigInt:
		v.Set(reflect.ValueOf(*t.bigInt()))
		return v
	case tyBigFloat:
		v.Set(reflect.ValueOf(*big.NewFloat([]float64{0, 1.5, -2.25, 1e100, 3}[t.r.Intn(5)])))
		return v
	case tyDecimal:
		d := apd.New(int64(t.r.Intn(100000))-50000, int32(t.r.Intn(20)-10))
		if t.r.P(1, 3) {
			// coefficient wider than 64 bits, possibly with trailing decimal zeros
			c := new(big.Int).SetBytes(t.r.Bytes(9 + t.r.Intn(8)))
			if t.r.P(1, 2) {
				c.Mul(c, new(big.Int).Exp(big.NewInt(10), big.NewInt(int64(1+t.r.Intn(4))), nil))
			}
			d = apd.NewWithBigInt(c, int32(t.r.Intn(20)-10))
			if t.r.P(1, 3) {
				d.Exponent = 0 // an integer beyond 64 bits: its CTE text is an integer literal
			}
			d.Negative = t.r.P(1, 2)
		}
		v.Set(reflect.ValueOf(*d))
		return v
	case tyDFloat:
		v.Set(reflect.ValueOf(compact_float.DFloatValue(int32(t.r.Intn(20)-10), int64(t.r.Intn(100000))-50000)))
		return v
	case tyURL:
		u, _ := url.Parse(urlPool[t.r.Intn(len(urlPool))])
		v.Set(reflect.ValueOf(*u))
		return v
	case tyUID:
		var u types.UID
		copy(u[:], t.r.Bytes(16))
		v.Set(reflect.ValueOf(u))
		return v
	case tyMedia:
		v.Set(reflect.ValueOf(types.Media{MediaType: mediaTypes[t.r.Intn(len(mediaTypes))], Data: t.r.Bytes(t.r.Intn(10))}))
		return v
	case tyNode:
		n := types.Node{Value: t.ifaceValue(), Children: []interface{}{}}
		for i := t.r.Intn(3); i > 0; i-- {
			n.Children = append(n.Children, t.ifaceValue())
		}
		v.Set(reflect.ValueOf(n))
		return v
	case tyEdge:
		v.Set(reflect.ValueOf(types.Edge{Source: "a", Description: t.ifaceValue(), Destination: int64(t.r.Intn(100))}))
		return v
	}
	switch ty.Kind() {
	case reflect.Bool:
		v.SetBool(t.r.P(1, 2))
	case reflect.Int, reflect.Int8, reflect.Int16, reflect.Int32, reflect.Int64:
		bits := ty.Bits()
		x := int64(t.intBits())
		x = x << uint(64-bits) >> uint(64-bits)
		v.SetInt(x)
	case reflect.Uint, reflect.Uint8, reflect.Uint16, reflect.Uint32, reflect.Uint64:
		bits := ty.Bits()
		x := t.intBits()
		if t.r.P(1, 6) {
			x = math.MaxUint64
		}
		if bits < 64 {
			x &= (1 << uint(bits)) - 1
		}
		v.SetUint(x)
	case reflect.Float32:
		f := []float32{0, 1.5, -2.25, 3.4e38, 1e-45, float32(math.Inf(1)), 0.1}[t.r.Intn(7)]
		if t.r.P(1, 3) {
			f = math.Float32frombits(uint32(t.r.Next()) &^ 0x7f800000 | uint32(1+t.r.Intn(253))<<23)
		}
		v.SetFloat(float64(f))
	case reflect.Float64:
		g := NewGen(t.r, GenCfg{})
		b := g.floatBits()
		f := math.Float64frombits(b)
		if f != f {
			f = 1.25
		}
		v.SetFloat(f)
	case reflect.String:
		g := NewGen(t.r, GenCfg{})
		v.SetString(string(g.text(t.lenPool() % 20)))
	case reflect.Interface:
		if iv := t.ifaceValue(); iv != nil {
			v.Set(reflect.ValueOf(iv))
		}
	case reflect.Ptr:
		if t.r.P(1, 6) {
			return v // nil
		}
		p := reflect.New(ty.Elem())
		p.Elem().Set(t.GenValue(ty.Elem(), depth-1))
		v.Set(p)
	case reflect.Slice:
		n := t.lenPool()
		if depth <= 1 && n > 8 && ty.Elem().Kind() >= reflect.Array {
			n = 2
		}
		if t.r.P(1, 10) {
			t.feature("nil-container")
			return v // nil slice
		}
		s := reflect.MakeSlice(ty, n, n)
		for i := 0; i < n; i++ {
			s.Index(i).Set(t.GenValue(ty.Elem(), depth-1))
		}
		v.Set(s)
	case reflect.Array:
		nilPattern := false
		switch ty.Elem().Kind() {
		case reflect.Ptr, reflect.Slice, reflect.Map:
			nilPattern = t.r.P(1, 2)
		}
		for i := 0; i < ty.Len(); i++ {
			if nilPattern && t.r.P(1, 2) {
				if ty.Elem().Kind() != reflect.Ptr {
					t.feature("nil-container")
				}
				continue // stays nil
			}
			v.Index(i).Set(t.GenValue(ty.Elem(), depth-1))
		}
	case reflect.Map:
		if t.r.P(1, 10) {
			t.feature("nil-container")
			return v
		}
		m := reflect.MakeMap(ty)
		for i := t.r.Intn(4); i > 0; i-- {
			m.SetMapIndex(t.GenValue(ty.Key(), 0), t.GenValue(ty.Elem(), depth-1))
		}
		v.Set(m)
	case reflect.Struct:
		for i := 0; i < ty.NumField(); i++ {
			if ty.Field(i).PkgPath == "" {
				v.Field(i).Set(t.GenValue(ty.Field(i).Type, depth-1))
			}
		}
	}
	return v
}

func (t *TyGen) bigInt() *big.Int {
	var v *big.Int
	switch t.r.Intn(5) {
	case 0:
		v = big.NewInt(int64(t.intBits()))
	case 1:
		v = new(big.Int).Lsh(big.NewInt(1), 63)
	case 2:
		v = new(big.Int).Lsh(big.NewInt(1), 64)
		v.Sub(v, big.NewInt(1))
	case 3:
		v = new(big.Int).SetBytes(t.r.Bytes(1 + t.r.Intn(30)))
	default:
		v = new(big.Int).Lsh(big.NewInt(1), 63)
		v.Add(v, big.NewInt(int64(t.r.Intn(3))))
	}
	if t.r.P(1, 2) {
		v.Neg(v)
	}
	return v
}

func (t *TyGen) ifaceValue() interface{} {
	switch t.r.Intn(5) {
	case 0:
		return int64(t.r.Intn(1000)) - 500
	case 1:
		return "s" + fmt.Sprint(t.r.Intn(100))
	case 2:
		return t.r.P(1, 2)
	case 3:
		return 1.5
	default:
		return nil
	}
}

// ---------------------------------------------------------------------------------------
// Equality "by value": nil and empty slices/maps alike, floats by bit pattern (any NaN equals any
// NaN), times by instant, big numbers by value, pointers by pointee.

func equalValues(a, b reflect.Value, path string) (bool, string) {
	for a.IsValid() && a.Kind() == reflect.Interface && !a.IsNil() {
		a = a.Elem()
	}
	for b.IsValid() && b.Kind() == reflect.Interface && !b.IsNil() {
		b = b.Elem()
	}
	if !a.IsValid() || !b.IsValid() {
		if isNilish(a) && isNilish(b) {
			return true, ""
		}
		return false, path + ": one side missing"
	}
	if a.Type() != b.Type() {
		// numeric values held in interface{} may change width
		if ra, ok := numericRat(a); ok {
			if rb, ok := numericRat(b); ok && ra.Cmp(rb) == 0 {
				return true, ""
			}
		}
		if isNilish(a) && isNilish(b) {
			return true, ""
		}
		return false, fmt.Sprintf("%s: type %s vs %s", path, a.Type(), b.Type())
	}
	if a.CanInterface() {
		switch x := a.Interface().(type) {
		case time.Time:
			y := b.Interface().(time.Time)
			if x.Equal(y) {
				return true, ""
			}
			return false, fmt.Sprintf("%s: time %v vs %v", path, x, y)
		case compact_time.Time:
			y := b.Interface().(compact_time.Time)
			if timeText(x) == timeText(y) {
				return true, ""
			}
			return false, fmt.Sprintf("%s: ctime %s vs %s", path, timeText(x), timeText(y))
		case big.Int:
			y := b.Interface().(big.Int)
			if x.Cmp(&y) == 0 {
				return true, ""
			}
			return false, fmt.Sprintf("%s: bigint %s vs %s", path, x.String(), y.String())
		case big.Float:
			y := b.Interface().(big.Float)
			if x.Cmp(&y) == 0 {
				return true, ""
			}
			return false, fmt.Sprintf("%s: bigfloat %s vs %s", path, x.String(), y.String())
		case apd.Decimal:
			y := b.Interface().(apd.Decimal)
			if x.Cmp(&y) == 0 {
				return true, ""
			}
			return false, fmt.Sprintf("%s: decimal %s vs %s", path, x.String(), y.String())
		case url.URL:
			y := b.Interface().(url.URL)
			if x.String() == y.String() {
				return true, ""
			}
			return false, fmt.Sprintf("%s: url %s vs %s", path, x.String(), y.String())
		}
	}
	switch a.Kind() {
	case reflect.Bool:
		if a.Bool() == b.Bool() {
			return true, ""
		}
	case reflect.Int, reflect.Int8, reflect.Int16, reflect.Int32, reflect.Int64:
		if a.Int() == b.Int() {
			return true, ""
		}
	case reflect.Uint, reflect.Uint8, reflect.Uint16, reflect.Uint32, reflect.Uint64:
		if a.Uint() == b.Uint() {
			return true, ""
		}
	case reflect.Float32, reflect.Float64:
		x, y := a.Float(), b.Float()
		if (x != x && y != y) || math.Float64bits(x) == math.Float64bits(y) {
			return true, ""
		}
		return false, fmt.Sprintf("%s: float %016x vs %016x", path, math.Float64bits(x), math.Float64bits(y))
	case reflect.String:
		if a.String() == b.String() {
			return true, ""
		}
	case reflect.Ptr:
		if a.IsNil() || b.IsNil() {
			if a.IsNil() && b.IsNil() {
				return true, ""
			}
			return false, path + ": nil pointer vs non-nil"
		}
		return equalValues(a.Elem(), b.Elem(), path+".*")
	case reflect.Slice, reflect.Array:
		if a.Len() != b.Len() {
			return false, fmt.Sprintf("%s: length %d vs %d", path, a.Len(), b.Len())
		}
		for i := 0; i < a.Len(); i++ {
			if ok, why := equalValues(a.Index(i), b.Index(i), fmt.Sprintf("%s[%d]", path, i)); !ok {
				return false, why
			}
		}
		return true, ""
	case reflect.Map:
		if a.Len() != b.Len() {
			return false, fmt.Sprintf("%s: map size %d vs %d", path, a.Len(), b.Len())
		}
		for _, k := range a.MapKeys() {
			bv := b.MapIndex(k)
			if !bv.IsValid() {
				return false, fmt.Sprintf("%s: key %v missing", path, k)
			}
			if ok, why := equalValues(a.MapIndex(k), bv, fmt.Sprintf("%s[%v]", path, k)); !ok {
				return false, why
			}
		}
		return true, ""
	case reflect.Struct:
		for i := 0; i < a.NumField(); i++ {
			if a.Type().Field(i).PkgPath != "" {
				continue
			}
			if ok, why := equalValues(a.Field(i), b.Field(i), path+"."+a.Type().Field(i).Name); !ok {
				return false, why
			}
		}
		return true, ""
	default:
		return true, ""
	}
	return false, fmt.Sprintf("%s: %v vs %v", path, a, b)
}

func isNilish(v reflect.Value) bool {
	if !v.IsValid() {
		return true
	}
	switch v.Kind() {
	case reflect.Ptr, reflect.Interface:
		return v.IsNil()
	case reflect.Slice, reflect.Map:
		return v.Len() == 0
	}
	return false
}

func numericRat(v reflect.Value) (*big.Rat, bool) {
	switch v.Kind() {
	case reflect.Int, reflect.Int8, reflect.Int16, reflect.Int32, reflect.Int64:
		return new(big.Rat).SetInt64(v.Int()), true
	case reflect.Uint, reflect.Uint8, reflect.Uint16, reflect.Uint32, reflect.Uint64:
		return new(big.Rat).SetInt(new(big.Int).SetUint64(v.Uint())), true
	case reflect.Float32, reflect.Float64:
		f := v.Float()
		if f != f || math.IsInf(f, 0) {
			return nil, false
		}
		r := new(big.Rat)
		r.SetFloat64(f)
		return r, true
	}
	return nil, false
}

// scanType adds the features visible in the structure of a type.
func (t *TyGen) scanType(ty reflect.Type, seen map[reflect.Type]bool) {
	if seen[ty] {
		return
	}
	seen[ty] = true
	switch ty {
	case tyTime, tyCTime, tyBigInt, tyBigFloat, tyDecimal, tyDFloat, tyURL, tyUID, tyMedia, tyNode, tyEdge:
		return
	}
	switch ty.Kind() {
	case reflect.Slice, reflect.Array:
		el := ty.Elem()
		switch el.Kind() {
		case reflect.Bool:
			t.feature("bool-slice")
		case reflect.Int, reflect.Uint:
			t.feature("int-slice")
		case reflect.Uint8:
			if ty.Kind() == reflect.Array {
				t.feature("byte-array")
			}
		}
		if ty.Kind() == reflect.Array && ty.Len() == 0 {
			t.feature("zero-length-array")
		}
		t.scanType(el, seen)
	case reflect.Map:
		t.scanType(ty.Key(), seen)
		t.scanType(ty.Elem(), seen)
	case reflect.Ptr:
		switch ty.Elem().Kind() {
		case reflect.Map, reflect.Slice, reflect.Array:
			t.feature("pointer-to-container")
		case reflect.Ptr, reflect.Interface:
			t.feature("pointer-to-pointer")
		}
		t.scanType(ty.Elem(), seen)
	case reflect.Struct:
		for i := 0; i < ty.NumField(); i++ {
			t.scanType(ty.Field(i).Type, seen)
		}
	}
}

func (t *TyGen) ScanType(ty reflect.Type) { t.scanType(ty, map[reflect.Type]bool{}) }
