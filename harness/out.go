package main

import (
	"bufio"
	"encoding/json"
	"fmt"
	"os"
	"sort"
	"strings"
)

// Out collects the case file for the Lean driver and the run statistics for the evidence.
type Out struct {
	w       *bufio.Writer
	f       *os.File
	Lines   int
	Stats   map[string]int
	Samples []string
	Direct  []DirectFinding // property failures decided on the Go side (no model needed)
	distinct map[uint64]bool
	Nontrivial int
}

type DirectFinding struct {
	Prop   string `json:"prop"`
	Key    string `json:"key"`    // finding class (matched against known-findings.txt)
	What   string `json:"what"`   // human description
	Replay string `json:"replay"` // input that reproduces it
}

func NewOut(path string) *Out {
	f, err := os.Create(path)
	if err != nil {
		panic(err)
	}
	return &Out{w: bufio.NewWriterSize(f, 1<<20), f: f, Stats: map[string]int{}, distinct: map[uint64]bool{}}
}

// Line writes: kind \t id \t op \t args... \t => \t expected
func (o *Out) Line(kind, id, op string, args []string, expected string) {
	o.w.WriteString(kind)
	o.w.WriteByte('\t')
	o.w.WriteString(id)
	o.w.WriteByte('\t')
	o.w.WriteString(op)
	for _, a := range args {
		o.w.WriteByte('\t')
		o.w.WriteString(a)
	}
	o.w.WriteString("\t=>\t")
	o.w.WriteString(expected)
	o.w.WriteByte('\n')
	o.Lines++
	o.Stats["line:"+kind+":"+op]++
}

func (o *Out) Count(k string) { o.Stats[k]++ }
func (o *Out) Add(k string, n int) { o.Stats[k] += n }

func (o *Out) Sample(s string) {
	if len(o.Samples) < 5 {
		if len(s) > 600 {
			s = s[:600] + "…"
		}
		o.Samples = append(o.Samples, s)
	}
}

func fnv(s string) uint64 {
	h := uint64(14695981039346656037)
	for i := 0; i < len(s); i++ {
		h ^= uint64(s[i])
		h *= 1099511628211
	}
	return h
}

// Case registers an explored case: distinct by content, non-trivial by the caller's rule.
func (o *Out) Case(content string, nontrivial bool) {
	o.Stats["cases"]++
	h := fnv(content)
	if !o.distinct[h] {
		o.distinct[h] = true
		if nontrivial {
			o.Nontrivial++
		}
	}
}

func (o *Out) Finding(prop, key, what, replay string) {
	o.Direct = append(o.Direct, DirectFinding{prop, key, what, replay})
	o.Stats["direct-finding:"+key]++
}

func (o *Out) Close(metaPath string) {
	o.w.Flush()
	o.f.Close()
	keys := make([]string, 0, len(o.Stats))
	for k := range o.Stats {
		keys = append(keys, k)
	}
	sort.Strings(keys)
	meta := map[string]interface{}{
		"lines":               o.Lines,
		"stats":               o.Stats,
		"samples":             o.Samples,
		"direct":              o.Direct,
		"distinct_nontrivial": o.Nontrivial,
		"distinct":            len(o.distinct),
	}
	b, _ := json.MarshalIndent(meta, "", " ")
	if err := os.WriteFile(metaPath, b, 0644); err != nil {
		panic(err)
	}
}

func errClass(err error, table [][2]string) string {
	if err == nil {
		return "OK"
	}
	msg := err.Error()
	for _, kv := range table {
		if strings.Contains(msg, kv[0]) {
			return kv[1]
		}
	}
	return "OTHER(" + strings.ReplaceAll(strings.ReplaceAll(msg, "\t", " "), "\n", " ") + ")"
}

func die(format string, args ...interface{}) {
	fmt.Fprintf(os.Stderr, format+"\n", args...)
	os.Exit(2)
}
