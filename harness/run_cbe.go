package main

import (
	"bytes"
	"fmt"

	"github.com/kstenerud/go-concise-encoding/cbe"
	"github.com/kstenerud/go-concise-encoding/ce/events"
	"github.com/kstenerud/go-concise-encoding/configuration"
	"github.com/kstenerud/go-concise-encoding/rules"
)

func init() {
	runners["C01"] = runC01
}

var cbeDecErrTable = [][2]string{
	{"unexpected EOF", "EOF"},
	{"EOF", "EOF"},
	{"First byte of CBE document", "HEADER"},
	{"Unsupported type", "TYPE"},
	{"Unsupported plane 2 type", "TYPE"},
	{"is too big", "TOOBIG"},
	{"max int value", "TOOBIG"},
	{"identifier cannot be empty", "EMPTYID"},
}

// safely runs fn, converting a panic into an error.
func safely(fn func()) (err error) {
	defer func() {
		if r := recover(); r != nil {
			if e, ok := r.(error); ok {
				err = e
			} else {
				err = fmt.Errorf("%v", r)
			}
		}
	}()
	fn()
	return nil
}

// playTo sends events to a receiver until one panics; returns the index reached and the error.
func playTo(evs []Event, rcv events.DataEventReceiver) (n int, err error) {
	for i := range evs {
		if err = safely(func() { evs[i].Send(rcv) }); err != nil {
			return i, err
		}
	}
	return len(evs), nil
}

// rulesAccept drives the real validator over the stream.
func rulesAccept(evs []Event, cfg *configuration.Configuration) (int, error) {
	r := rules.NewRules(nil, cfg)
	return playTo(evs, r)
}

// cbeEncode runs the real encoder (no rules) and returns the bytes written.
func cbeEncode(evs []Event, cfg *configuration.Configuration) ([]byte, error) {
	enc := cbe.NewEncoder(cfg)
	var buf bytes.Buffer
	enc.PrepareToEncode(&buf)
	_, err := playTo(evs, enc)
	return buf.Bytes(), err
}

// cbeDecode runs the real decoder into a recorder, optionally behind the rules.
func cbeDecode(doc []byte, cfg *configuration.Configuration, withRules bool) ([]Event, error) {
	rec := &Recorder{}
	var rcv events.DataEventReceiver = rec
	if withRules {
		rcv = rules.NewRules(rec, cfg)
	}
	dec := cbe.NewDecoder(cfg)
	err := dec.DecodeDocument(doc, rcv)
	return rec.Evs, err
}

func cbeGenCfg(tier string) GenCfg {
	return GenCfg{NoCustomText: true, NoTimes: false, MaxDepth: 6, Budget: 40}
}

// C01: CBE encode/decode preserves every rules-valid event stream.
func runC01(r *Run) {
	cfg := configuration.New()
	r.each(func(idx int, rng *Rng) {
		gc := cbeGenCfg(r.Tier)
		id := fmt.Sprintf("%d", idx)
		if idx%25 == 7 {
			// dedicated population for the known finding: big.Float values that are not float64
			// values are rounded to decimal by the encoder (conversions.BigFloatToPBigDecimalFloat)
			gc.InexactBigFloat = true
			gc.MaxDepth = 2
			gc.Budget = 6
		}
		g := NewGen(rng, gc)
		evs := g.Doc()
		if gc.InexactBigFloat && hasInexactBigFloat(evs) {
			id += "|bigfloat-inexact"
		}
		text := EventsText(evs)
		for k, v := range g.Stats {
			r.out.Add("ev:"+k, v)
		}
		r.out.Case(text, len(evs) > 4)
		r.out.Sample(text)
		if n, err := rulesAccept(evs, cfg); err != nil {
			// a generator-valid stream the validator rejects: not C01's domain (reported by C10)
			r.out.Count("skipped:rules-reject")
			_ = n
			return
		}
		doc, err := cbeEncode(evs, cfg)
		if err != nil {
			r.out.Finding("C01", "encode-error", "CBE encoder fails on a rules-valid stream: "+err.Error(), text)
			return
		}
		r.out.Line("corr", id, "CBE.ENC", []string{text}, "OK "+hx(doc))
		back, derr := cbeDecode(doc, cfg, true)
		backText := EventsText(back)
		if derr != nil {
			r.out.Finding("C01", "decode-error", "CBE decoder+rules reject encoder output: "+derr.Error(), text)
			return
		}
		// decoder alone (no rules) for the model correspondence
		raw, rerr := cbeDecode(doc, cfg, false)
		if rerr == nil {
			r.out.Line("corr", id, "CBE.DEC", []string{hx(doc)}, "OK "+EventsText(raw))
		} else {
			r.out.Line("corr", id, "CBE.DEC", []string{hx(doc)}, "ERR "+errClass(rerr, cbeDecErrTable)+" "+EventsText(raw))
		}
		r.out.Line("prop", id, "CANON.EQ", []string{"0", text, backText}, "1")
	})
}

func hasInexactBigFloat(evs []Event) bool {
	for i := range evs {
		if evs[i].K == "bf" && !evs[i].Nil && !evs[i].BF.IsInf() {
			if _, acc := evs[i].BF.Float64(); acc != 0 {
				return true
			}
		}
	}
	return false
}
