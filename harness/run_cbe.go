package main

import (
	"math/big"
	"bytes"
	"fmt"
	"math"

	"github.com/kstenerud/go-concise-encoding/cbe"
	"github.com/kstenerud/go-concise-encoding/ce/events"
	"github.com/kstenerud/go-concise-encoding/configuration"
	"github.com/kstenerud/go-concise-encoding/rules"
)

func init() {
	runners["C01"] = runC01
}

var cbeDecErrTable = [][2]string{
	{"unexpected EOF", "EOF"},
	{"EOF", "EOF"},
	{"First byte of CBE document", "HEADER"},
	{"Unsupported type", "TYPE"},
	{"Unsupported plane 2 type", "TYPE"},
	{"is too big", "TOOBIG"},
	{"max int value", "TOOBIG"},
	{"identifier cannot be empty", "EMPTYID"},
}

// safely runs fn, converting a panic into an error.
func safely(fn func()) (err error) {
	defer func() {
		if r := recover(); r != nil {
			if e, ok := r.(error); ok {
				err = e
			} else {
				err = fmt.Errorf("%v", r)
			}
		}
	}()
	fn()
	return nil
}

// playTo sends events to a receiver until one panics; returns the index reached and the error.
func playTo(evs []Event, rcv events.DataEventReceiver) (n int, err error) {
	for i := range evs {
		if err = safely(func() { evs[i].Send(rcv) }); err != nil {
			return i, err
		}
	}
	return len(evs), nil
}

// rulesAccept drives the real validator over the stream.
func rulesAccept(evs []Event, cfg *configuration.Configuration) (int, error) {
	r := rules.NewRules(nil, cfg)
	return playTo(evs, r)
}

// cbeEncode runs the real encoder (no rules) and returns the bytes written.
func cbeEncode(evs []Event, cfg *configuration.Configuration) ([]byte, error) {
	enc := cbe.NewEncoder(cfg)
	var buf bytes.Buffer
	enc.PrepareToEncode(&buf)
	_, err := playTo(evs, enc)
	return buf.Bytes(), err
}

// cbeDecode runs the real decoder into a recorder, optionally behind the rules.
func cbeDecode(doc []byte, cfg *configuration.Configuration, withRules bool) ([]Event, error) {
	rec := &Recorder{}
	var rcv events.DataEventReceiver = rec
	if withRules {
		rcv = rules.NewRules(rec, cfg)
	}
	dec := cbe.NewDecoder(cfg)
	err := dec.DecodeDocument(doc, rcv)
	return rec.Evs, err
}

func cbeGenCfg(tier string) GenCfg {
	return GenCfg{NoCustomText: true, NoTimes: false, MaxDepth: 6, Budget: 40}
}

// C01: CBE encode/decode preserves every rules-valid event stream.
func runC01(r *Run) {
	cfg := configuration.New()
	r.each(func(idx int, rng *Rng) {
		gc := cbeGenCfg(r.Tier)
		id := fmt.Sprintf("%d", idx)
		if idx%25 == 7 {
			// dedicated population for the known finding: big.Float values that are not float64
			// values are rounded to decimal by the encoder (conversions.BigFloatToPBigDecimalFloat)
			gc.InexactBigFloat = true
			gc.MaxDepth = 2
			gc.Budget = 6
		}
		g := NewGen(rng, gc)
		evs := g.Doc()
		if gc.InexactBigFloat && hasInexactBigFloat(evs) {
			id += "|bigfloat-inexact"
		}
		text := EventsText(evs)
		for k, v := range g.Stats {
			r.out.Add("ev:"+k, v)
		}
		r.out.Case(text, len(evs) > 4)
		r.out.Sample(text)
		if n, err := rulesAccept(evs, cfg); err != nil {
			// a generator-valid stream the validator rejects: not C01's domain (reported by C10)
			r.out.Count("skipped:rules-reject")
			_ = n
			return
		}
		doc, err := cbeEncode(evs, cfg)
		if err != nil {
			r.out.Finding("C01", "encode-error", "CBE encoder fails on a rules-valid stream: "+err.Error(), text)
			return
		}
		r.out.Line("corr", id, "CBE.ENC", []string{text}, "OK "+hx(doc))
		back, derr := cbeDecode(doc, cfg, true)
		backText := EventsText(back)
		if derr != nil {
			r.out.Finding("C01", "decode-error", "CBE decoder+rules reject encoder output: "+derr.Error(), text)
			return
		}
		// decoder alone (no rules) for the model correspondence
		raw, rerr := cbeDecode(doc, cfg, false)
		if rerr == nil {
			r.out.Line("corr", id, "CBE.DEC", []string{hx(doc)}, "OK "+EventsText(raw))
		} else {
			r.out.Line("corr", id, "CBE.DEC", []string{hx(doc)}, "ERR "+errClass(rerr, cbeDecErrTable)+" "+EventsText(raw))
		}
		r.out.Line("prop", id, "CANON.EQ", []string{"0", text, backText}, "1")
	})
}

func hasInexactBigFloat(evs []Event) bool {
	for i := range evs {
		if evs[i].K == "bf" && !evs[i].Nil && !evs[i].BF.IsInf() {
			if _, acc := evs[i].BF.Float64(); acc != 0 {
				return true
			}
		}
	}
	return false
}

// ---------------------------------------------------------------------------------------
// C22: CBE encoding is minimal and canonical.

func init() {
	runners["C22"] = runC22
}

func encodeOne(e Event, cfg *configuration.Configuration) ([]byte, error) {
	return cbeEncode([]Event{e}, cfg)
}

func runC22(r *Run) {
	cfg := configuration.New()
	r.each(func(idx int, rng *Rng) {
		g := NewGen(rng, GenCfg{NoCustomText: true})
		id := fmt.Sprintf("%d", idx)
		switch idx % 3 {
		case 0, 1:
			// single values: integers in every form, floats, arrays and strings around the short-form limit
			var evs []Event
			switch rng.Intn(6) {
			case 5:
				// a big float whose precision exceeds a double's but whose value is exactly a double: one value,
				// one encoding - the bytes must be those of the same value sent as a float (narrowest width
				// included; seeded change C22B3 sent it as a decimal whenever Prec() > 53)
				x := math.Float64frombits(g.floatBits())
				if math.IsNaN(x) || math.IsInf(x, 0) || x == 0 {
					x = []float64{1.5, -0.25, 3, 1 << 20, 1e-3}[rng.Intn(5)]
				}
				bf := new(big.Float).SetPrec(uint([]int{53, 64, 100, 128}[rng.Intn(4)])).SetFloat64(x)
				eb, ef := Event{K: "bf", BF: bf}, Event{K: "fl", F: x}
				text := eb.Text()
				r.out.Case(text, true)
				r.out.Count("single:bf-exact-double")
				db, err1 := encodeOne(eb, cfg)
				df, err2 := encodeOne(ef, cfg)
				if err1 != nil || err2 != nil {
					r.out.Finding("C22", "encode-error", fmt.Sprintf("encoder fails on a single value: %v %v", err1, err2), text)
					return
				}
				if !bytes.Equal(db, df) {
					r.out.Finding("C22", "bigfloat-exact-double", fmt.Sprintf("a big float of precision %d holding the double %v is written as %s, the double itself as %s", bf.Prec(), x, hx(db), hx(df)), text)
				}
				return
			case 0, 1:
				g.integer()
				evs = g.out
			case 2:
				g.emit(Event{K: "fl", F: math.Float64frombits(g.floatBits())})
				evs = g.out
			case 3:
				n := []int{0, 1, 14, 15, 16, 17, 63, 64, 127, 128, 300}[rng.Intn(11)]
				t := []events.ArrayType{events.ArrayTypeString, events.ArrayTypeResourceID, events.ArrayTypeReferenceRemote}[rng.Intn(3)]
				if t != events.ArrayTypeString && n == 0 {
					n = 1
				}
				txt := g.text(n)
				if rng.P(1, 2) {
					evs = []Event{{K: "s", AT: t, D: txt}}
				} else {
					evs = []Event{{K: "a", AT: t, N: uint64(len(txt)), D: txt}}
				}
			default:
				t := numericArrayTypes[rng.Intn(len(numericArrayTypes))]
				n := []int{0, 1, 14, 15, 16, 17, 64, 130}[rng.Intn(8)]
				var data []byte
				if t == events.ArrayTypeBit {
					data = rng.Bytes((n + 7) / 8)
					if n%8 != 0 {
						data[len(data)-1] &= byte(1<<uint(n%8)) - 1
					}
				} else {
					data = rng.Bytes(n * t.ElementSize() / 8)
				}
				evs = []Event{{K: "a", AT: t, N: uint64(n), D: data}}
			}
			e := evs[len(evs)-1]
			text := e.Text()
			r.out.Case(text, true)
			r.out.Count("single:" + e.K)
			r.out.Sample(text)
			doc, err := encodeOne(e, cfg)
			if err != nil {
				r.out.Finding("C22", "encode-error", "encoder fails on a single value: "+err.Error(), text)
				return
			}
			r.out.Line("corr", id, "CBE.ENC", []string{text}, "OK "+hx(doc))
			// independent size oracle: no encoding the format offers is shorter
			r.out.Line("prop", id, "CBE.MINLEN", []string{text}, fmt.Sprintf("%d", len(doc)))
		default:
			// idempotence: decode(encode(evs)) encoded again is byte-identical
			g2 := NewGen(rng, cbeGenCfg(r.Tier))
			evs := g2.Doc()
			text := EventsText(evs)
			r.out.Case(text, len(evs) > 4)
			r.out.Count("stream")
			doc, err := cbeEncode(evs, cfg)
			if err != nil {
				return
			}
			back, derr := cbeDecode(doc, cfg, true)
			if derr != nil {
				return // C01's business
			}
			doc2, err2 := cbeEncode(back, cfg)
			if err2 != nil || !bytes.Equal(doc, doc2) {
				r.out.Finding("C22", "reencode-differs", fmt.Sprintf("decoding an encoder-produced document and encoding it again does not reproduce it: %s vs %s", hx(doc), hx(doc2)), text)
			}
			r.out.Line("corr", id, "CBE.ENC", []string{EventsText(back)}, "OK "+hx(doc2))
		}
	})
}
