package main

import (
	"fmt"
	"github.com/kstenerud/go-concise-encoding/ce"
	"github.com/kstenerud/go-concise-encoding/configuration"
)

func init() {
	runners["dbg-rules"] = func(r *Run) {
		cfg := configuration.New()
		reasons := map[string]int{}
		ex := map[string]string{}
		r.each(func(idx int, rng *Rng) {
			g := NewGen(rng, cbeGenCfg(r.Tier))
			evs := g.Doc()
			if n, err := rulesAccept(evs, cfg); err != nil {
				msg := err.Error()
				if len(msg) > 50 {
					msg = msg[:50]
				}
				reasons[msg]++
				if _, ok := ex[msg]; !ok {
					ex[msg] = fmt.Sprintf("@%d %s", n, EventsText(evs))
				}
			}
		})
		for k, v := range reasons {
			e := ex[k]
			if len(e) > 300 {
				e = e[:300]
			}
			fmt.Println(v, k, "\n    ", e)
		}
	}
}

func init() {
	runners["dbg-docs"] = func(r *Run) {
		cfg := configuration.New()
		r.each(func(idx int, rng *Rng) {
			for _, dc := range genDocs(rng, cfg) {
				fmt.Println(idx, dc.format, dc.what, hx(dc.doc))
			}
		})
	}
}

func init() {
	runners["dbg-untyped"] = func(r *Run) {
		cfg := configuration.New()
		reasons := map[string]int{}
		ex := map[string]string{}
		r.each(func(idx int, rng *Rng) {
			gc := cbeGenCfg("quick")
			gc.NoComments = true
			g := NewGen(rng, gc)
			evs := g.Doc()
			doc, err := cbeEncode(evs, cfg)
			if err != nil {
				return
			}
			var uerr error
			func() {
				defer func() {
					if rec := recover(); rec != nil {
						uerr = fmt.Errorf("PANIC %v", rec)
					}
				}()
				_, uerr = ce.UnmarshalFromCBEDocument(doc, nil, cfg)
			}()
			if uerr != nil {
				msg := uerr.Error()
				if len(msg) > 70 {
					msg = msg[:70]
				}
				reasons[msg]++
				if _, ok := ex[msg]; !ok {
					t := EventsText(evs)
					if len(t) > 300 {
						t = t[:300]
					}
					ex[msg] = t
				}
			} else {
				reasons["OK"]++
			}
		})
		for k, v := range reasons {
			fmt.Println(v, k, "\n    ", ex[k])
		}
	}
}
