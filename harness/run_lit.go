package main

// C24: CTE literals decode to exactly the value written.
//
// Generated spellings (bases, separators, leading zeros, exponents, hex mantissas, specials,
// typed-array elements in every base incl. out-of-range ones, strings built from every escape
// form) are decoded by the real decoder; the Lean reference semantics (CE/Cte/Lit.lean) says
// what each spelling denotes and the driver compares (LIT.NUM / LIT.ELEM / LIT.STR).

import (
	"fmt"
	"math"
	"math/big"
	"strings"

	compact_float "github.com/kstenerud/go-compact-float"
	"github.com/kstenerud/go-concise-encoding/configuration"
)

func init() {
	runners["C24"] = runC24
}

func ratText(r *big.Rat, negZero bool) string {
	if r.Sign() == 0 {
		if negZero {
			return "-0/1"
		}
		return "0/1"
	}
	return r.Num().String() + "/" + r.Denom().String()
}

// value text of a numeric event
func numEventText(e *Event) string {
	switch e.K {
	case "nan":
		if e.B {
			return "snan"
		}
		return "nan"
	case "fl":
		if math.IsNaN(e.F) {
			if math.Float64bits(e.F)&(1<<51) != 0 {
				return "nan"
			}
			return "snan"
		}
		if math.IsInf(e.F, 1) {
			return "inf"
		}
		if math.IsInf(e.F, -1) {
			return "-inf"
		}
		r := new(big.Rat)
		r.SetFloat64(e.F)
		return ratText(r, e.F == 0 && math.Signbit(e.F))
	case "df":
		switch e.DF {
		case compact_float.Infinity():
			return "inf"
		case compact_float.NegativeInfinity():
			return "-inf"
		case compact_float.QuietNaN():
			return "nan"
		case compact_float.SignalingNaN():
			return "snan"
		case compact_float.NegativeZero():
			return "-0/1"
		}
	case "ni":
		if e.N == 0 {
			return "-0/1"
		}
	case "bdf":
		if e.BD != nil && e.BD.Form == 0 && e.BD.Coeff.Sign() == 0 {
			return ratText(new(big.Rat), e.BD.Negative)
		}
	case "bf":
		if e.BF != nil && e.BF.Sign() == 0 {
			return ratText(new(big.Rat), e.BF.Signbit())
		}
	}
	r, _, ok := eventRat(e)
	if !ok || r == nil {
		return "OTHER:" + e.Text()
	}
	return ratText(r, false)
}

func randCase(rng *Rng, s string) string {
	b := []byte(s)
	for i := range b {
		if rng.P(1, 2) {
			b[i] = byte(strings.ToUpper(string(b[i]))[0])
		}
	}
	return string(b)
}

// digits of the base with optional '_' separators and leading zeros
func genDigits(rng *Rng, base int, n int, sep bool) string {
	const hexd = "0123456789abcdefABCDEF"
	var sb strings.Builder
	for i := 0; i < n; i++ {
		var c byte
		switch base {
		case 2:
			c = "01"[rng.Intn(2)]
		case 8:
			c = "01234567"[rng.Intn(8)]
		case 10:
			c = "0123456789"[rng.Intn(10)]
		default:
			c = hexd[rng.Intn(len(hexd))]
		}
		if i == 0 && rng.P(1, 4) {
			c = '0'
		}
		if i > 0 && sep && rng.P(1, 5) {
			sb.WriteString(strings.Repeat("_", 1+rng.Intn(2)))
		}
		sb.WriteByte(c)
	}
	return sb.String()
}

func genIntLiteral(rng *Rng) string {
	neg := ""
	if rng.P(1, 3) {
		neg = "-"
	}
	if rng.P(1, 5) {
		// boundary magnitudes
		k := []uint{7, 8, 15, 16, 31, 32, 53, 62, 63, 64, 65, 100}[rng.Intn(12)]
		v := new(big.Int).Lsh(big.NewInt(1), k)
		v.Add(v, big.NewInt(int64(rng.Intn(3)-1)))
		switch rng.Intn(4) {
		case 0:
			return neg + v.String()
		case 1:
			return neg + "0x" + v.Text(16)
		case 2:
			return neg + "0b" + v.Text(2)
		default:
			return neg + "0o" + v.Text(8)
		}
	}
	n := 1 + rng.Intn(24)
	sep := rng.P(1, 3)
	switch rng.Intn(5) {
	case 0:
		return neg + randCase(rng, "0b") + genDigits(rng, 2, n+rng.Intn(50), sep)
	case 1:
		return neg + randCase(rng, "0o") + genDigits(rng, 8, n, sep)
	case 2:
		return neg + randCase(rng, "0x") + genDigits(rng, 16, n, sep)
	default:
		return neg + genDigits(rng, 10, n, sep)
	}
}

func genExponent(rng *Rng, ch string, max int) string {
	sign := []string{"", "+", "-"}[rng.Intn(3)]
	mag := rng.Intn(max)
	if rng.P(1, 2) {
		mag = rng.Intn(40)
	}
	d := fmt.Sprintf("%d", mag)
	if rng.P(1, 5) {
		d = "00" + d
	}
	if rng.P(1, 8) && len(d) > 1 {
		d = d[:1] + "_" + d[1:]
	}
	return randCase(rng, ch) + sign + d
}

func genFloatLiteral(rng *Rng) string {
	neg := ""
	if rng.P(1, 3) {
		neg = "-"
	}
	switch rng.Intn(12) {
	case 0:
		return neg + randCase(rng, "inf")
	case 1:
		return randCase(rng, []string{"nan", "snan"}[rng.Intn(2)])
	case 2:
		return neg + []string{"0.0", "0e0", "0.000", "0x0.0", "0x0p0", "0.0e5", "00.0"}[rng.Intn(7)]
	case 3:
		// a hex float whose first significant digit is e / E (a digit there, not an exponent marker) and
		// which is too small for float16 / float32 (or, with the larger exponents, float64): not zero
		// (seeded change C24B3 took the e for an exponent marker and accepted the element as zero)
		m := []string{"e", "E", "0.0e", "0.E1", "e.8", "E1.f", "00.00e8", "0.0ee"}[rng.Intn(8)]
		return neg + randCase(rng, "0x") + m + fmt.Sprintf("p-%d", []int{140, 151, 160, 200, 1080, 1100, 1200}[rng.Intn(7)])
	}
	sep := rng.P(1, 4)
	if rng.P(1, 2) {
		// decimal
		s := neg + genDigits(rng, 10, 1+rng.Intn(20), sep)
		form := rng.Intn(3)
		if form != 1 {
			s += "." + genDigits(rng, 10, 1+rng.Intn(20), sep)
		}
		if form != 0 {
			s += genExponent(rng, "e", 400)
		}
		return s
	}
	s := neg + randCase(rng, "0x") + genDigits(rng, 16, 1+rng.Intn(18), sep)
	if rng.P(1, 6) {
		s = neg + randCase(rng, "0x") + genDigits(rng, 16, 1+rng.Intn(40), sep) // long mantissa
	}
	form := rng.Intn(3)
	if form != 1 {
		s += "." + genDigits(rng, 16, 1+rng.Intn(18), sep)
	}
	if form != 0 {
		s += genExponent(rng, "p", 1100)
	}
	return s
}

// element spelling for a header suffix; fits tells the generator to stay in range
func genElemLiteral(rng *Rng, k arrKind, suffix string) string {
	if k.float {
		if suffix == "x" {
			s := genFloatLiteral(rng)
			// bare hex: drop the 0x prefix if it has one, otherwise make a bare hex number
			t := strings.TrimPrefix(s, "-")
			if len(t) > 2 && (t[:2] == "0x" || t[:2] == "0X") {
				if s[0] == '-' {
					return "-" + t[2:]
				}
				return t[2:]
			}
			if strings.ContainsAny(strings.ToLower(t), "in") { // inf / nan / snan
				return s
			}
			return genDigits(rng, 16, 1+rng.Intn(6), false)
		}
		if rng.P(1, 4) {
			// integer spellings a float array accepts: decimal and 0x-prefixed (no 0b / 0o there)
			for {
				s := genIntLiteral(rng)
				l := strings.ToLower(strings.TrimPrefix(s, "-"))
				if !strings.HasPrefix(l, "0b") && !strings.HasPrefix(l, "0o") {
					return s
				}
			}
		}
		return genFloatLiteral(rng)
	}
	neg := ""
	if rng.P(1, 3) {
		neg = "-"
	}
	// value around the kind's range boundaries or random
	var v *big.Int
	switch rng.Intn(3) {
	case 0:
		kk := []int{k.bits - 1, k.bits, k.bits - 2, 3}[rng.Intn(4)]
		v = new(big.Int).Lsh(big.NewInt(1), uint(kk))
		v.Add(v, big.NewInt(int64(rng.Intn(3)-1)))
	case 1:
		v = new(big.Int).SetUint64(rng.Next() >> uint(64-k.bits+rng.Intn(3)))
	default:
		v = big.NewInt(int64(rng.Intn(300)))
	}
	base := map[string]int{"": 10, "b": 2, "o": 8, "x": 16}[suffix]
	prefix := ""
	if suffix == "" && rng.P(1, 3) {
		b2 := []int{2, 8, 16}[rng.Intn(3)]
		prefix = map[int]string{2: "0b", 8: "0o", 16: "0x"}[b2]
		base = b2
	}
	d := v.Text(base)
	if rng.P(1, 5) {
		d = strings.Repeat("0", 1+rng.Intn(3)) + d
	}
	if rng.P(1, 5) && len(d) > 1 {
		i := 1 + rng.Intn(len(d)-1)
		d = d[:i] + "_" + d[i:]
	}
	if base == 16 && rng.P(1, 2) {
		d = strings.ToUpper(d)
	}
	return neg + randCase(rng, prefix) + d
}

var escPool = []string{`\n`, `\r`, `\t`, `\"`, `\*`, `\/`, `\\`, `\-`, `\_`, `\N`, `\R`, `\T`}
var cpPool = []string{"0", "9", "a", "7f", "80", "7ff", "800", "d7ff", "e000", "fffd", "ffff", "10000", "1F600", "10ffff", "0041", "00000041",
	"d800", "dfff", "110000", "ffffffff", "100000000"}
var plainPool = []string{"a", "Z", " ", "é", "日本", "😀", "'", "[", "]", "{", "=", ".", "x y", "λ", "0"}

func genStringBody(rng *Rng) string {
	var sb strings.Builder
	n := rng.Intn(7)
	for i := 0; i < n; i++ {
		switch rng.Intn(9) {
		case 0, 1, 2:
			sb.WriteString(plainPool[rng.Intn(len(plainPool))])
		case 3, 4:
			sb.WriteString(escPool[rng.Intn(len(escPool))])
		case 5, 6:
			cp := cpPool[rng.Intn(len(cpPool))]
			if rng.P(1, 3) {
				cp = fmt.Sprintf("%x", rng.Intn(0x110000))
			}
			sb.WriteString(`\[` + cp + `]`)
		case 7:
			sb.WriteString("\\" + []string{"\n", "\r\n", "\n   ", "\n\t \n "}[rng.Intn(4)])
		default:
			sentinel := []string{"@", "END", "#", "本", "!!"}[rng.Intn(5)]
			sep := []string{" ", "\t", "\n", "\r\n"}[rng.Intn(4)]
			content := []string{"", "raw \\n \"quotes\" \\[41]", "x", "a\nb", "日本", "E N D"}[rng.Intn(6)]
			if strings.Contains(content, sentinel) {
				content = "x"
			}
			sb.WriteString(`\.` + sentinel + sep + content + sentinel)
		}
	}
	return sb.String()
}

func runC24(r *Run) {
	cfg := configuration.New()
	decodeOne := func(doc string) (*Event, error) {
		evs, err := cteDecode([]byte(doc), cfg, true)
		if err != nil {
			return nil, err
		}
		if len(evs) != 4 {
			return nil, fmt.Errorf("unexpected events %s", EventsText(evs))
		}
		return &evs[2], nil
	}
	r.each(func(idx int, rng *Rng) {
		id := fmt.Sprintf("%d", idx)
		switch idx % 4 {
		case 0, 1:
			lit := genIntLiteral(rng)
			class := "int"
			if idx%4 == 1 {
				lit = genFloatLiteral(rng)
				class = "float"
			}
			r.out.Case(lit, true)
			r.out.Count("literal:" + class)
			e, err := decodeOne("c0 " + lit)
			got := "ERR"
			if err == nil {
				got = numEventText(e)
			}
			if idx%200 < 2 {
				r.out.Sample(lit + " => " + got)
			}
			r.out.Line("prop", id+"|"+class, "LIT.NUM", []string{lit}, got)
		case 2:
			k := arrKinds[rng.Intn(len(arrKinds))]
			sufs := []string{"", "b", "o", "x"}
			if k.float {
				sufs = []string{"", "x"}
			}
			suffix := sufs[rng.Intn(len(sufs))]
			lit := genElemLiteral(rng, k, suffix)
			doc := fmt.Sprintf("c0 @%s%s[%s]", k.name, suffix, lit)
			r.out.Case(doc, true)
			r.out.Count("element:" + k.name + suffix)
			e, err := decodeOne(doc)
			got := "ERR"
			if err == nil && e.K == "a" && e.AT == k.at {
				el := unpackElems(k.bits, e.D)
				if len(el) == 1 {
					if k.float {
						c := canonFloatElem(k.bits, el[0])
						switch {
						case c != el[0] || c == 0x7fc0 && k.bits == 16 || c == 0x7fc00000 && k.bits == 32 || c == 0x7ff8000000000000 && k.bits == 64 ||
							c == 0x7f81 && k.bits == 16 || c == 0x7f800001 && k.bits == 32 || c == 0x7ff0000000000001 && k.bits == 64:
							// a NaN: only its kind is kept (converting a float32 sNaN to float64 would quiet it)
							q := map[int]uint64{16: 0x7fc0, 32: 0x7fc00000, 64: 0x7ff8000000000000}[k.bits]
							if c == q {
								got = "OK nan"
							} else {
								got = "OK snan"
							}
						default:
							got = "OK " + numEventText(&Event{K: "fl", F: floatOfBits(k.bits, el[0])})
							// exact reference for the one thing the driver's semantics skips for hex floats: a literal
							// that denotes a non-zero number is not the element zero (a value too small for the type
							// is refused; seeded change C24B3 read e-leading hex mantissas as zero)
							if floatOfBits(k.bits, el[0]) == 0 {
								t := strings.ReplaceAll(lit, "_", "")
								if suffix == "x" && !strings.ContainsAny(strings.ToLower(t), "in") {
									if strings.HasPrefix(t, "-") {
										t = "-0x" + t[1:]
									} else {
										t = "0x" + t
									}
								}
								if ref, _, perr := new(big.Float).SetPrec(4096).Parse(t, 0); perr == nil && ref.Sign() != 0 {
									r.out.Finding("C24", "nonzero-element-read-as-zero:"+k.name, fmt.Sprintf("the element %s of %s denotes a non-zero number but is decoded as zero", lit, doc), doc)
								}
							}
						}
					} else {
						got = fmt.Sprintf("OK %d", el[0])
					}
				} else {
					got = fmt.Sprintf("COUNT %d", len(el))
				}
			}
			if idx%200 == 2 {
				r.out.Sample(doc + " => " + got)
			}
			r.out.Line("prop", id+"|elem:"+k.name, "LIT.ELEM", []string{k.name, suffix, lit}, got)
		default:
			body := genStringBody(rng)
			doc := "c0 \"" + body + "\""
			r.out.Case(doc, len(body) > 0)
			r.out.Count("string")
			e, err := decodeOne(doc)
			got := "ERR"
			if err == nil && (e.K == "a" || e.K == "s") {
				got = "OK " + hx(e.D)
			}
			if idx%200 == 3 {
				r.out.Sample(strings.ReplaceAll(doc, "\n", "\\n") + " => " + got)
			}
			r.out.Line("prop", id+"|string", "LIT.STR", []string{hx([]byte(body))}, got)
		}
	})
}

func floatOfBits(bits int, e uint64) float64 {
	switch bits {
	case 16:
		return float64(math.Float32frombits(uint32(e) << 16))
	case 32:
		return float64(math.Float32frombits(uint32(e)))
	default:
		return math.Float64frombits(e)
	}
}
