package main

import (
	"time"
	"fmt"
	"reflect"

	"github.com/kstenerud/go-concise-encoding/ce"
	"github.com/kstenerud/go-concise-encoding/configuration"
)

func init() {
	runners["C09"] = runC09
}

// leafSlack: number of scalar leaves that may differ. A CTE document cut inside a token (a number,
// a string) still contains a shorter complete token, which the parser reports; that one trailing
// leaf is not required to match. CBE has no such ambiguity: slack 0.
var leafSlack int
var textMode bool // CTE: typed arrays are written element by element, so a cut leaves a prefix of the elements

// isPrefixValue: partial ⊑ full — everything present in partial is in full, unchanged or as a
// prefix of the corresponding container; zero values / nils count as "not yet decoded".
var prefixDepth int

func isPrefixValue(p, f reflect.Value, path string) (bool, string) {
	// a value of a document is a tree (documents of this check have no references): a partial result
	// that keeps descending contains a cycle the document does not have
	prefixDepth++
	defer func() { prefixDepth-- }()
	if prefixDepth > 5000 {
		return false, path[:min(len(path), 80)] + "...: the partial result contains a cycle"
	}
	for p.IsValid() && p.Kind() == reflect.Interface && !p.IsNil() {
		p = p.Elem()
	}
	for f.IsValid() && f.Kind() == reflect.Interface && !f.IsNil() {
		f = f.Elem()
	}
	if !p.IsValid() || isNilish(p) {
		return true, ""
	}
	if p.IsZero() {
		return true, ""
	}
	if !f.IsValid() {
		return false, path + ": present in the partial result but not in the full value"
	}
	if p.Type() != f.Type() {
		if ra, ok := numericRat(p); ok {
			if rb, ok := numericRat(f); ok && ra.Cmp(rb) == 0 {
				return true, ""
			}
		}
		if leafSlack > 0 && p.Kind() != reflect.Slice && p.Kind() != reflect.Map && p.Kind() != reflect.Array {
			leafSlack--
			return true, ""
		}
		return false, fmt.Sprintf("%s: type %s vs %s", path, p.Type(), f.Type())
	}
	switch p.Type() {
	case tyTime, tyCTime, tyBigInt, tyBigFloat, tyDecimal, tyDFloat, tyURL, tyUID, tyMedia:
		ok, why := equalValues(p, f, path)
		if !ok && leafSlack > 0 {
			leafSlack--
			return true, ""
		}
		return ok, why
	}
	switch p.Kind() {
	case reflect.Ptr:
		if f.IsNil() {
			return false, path + ": pointer set in the partial result but nil in the full value"
		}
		return isPrefixValue(p.Elem(), f.Elem(), path+".*")
	case reflect.Slice, reflect.Array:
		if !textMode && (p.Type().Elem().Kind() == reflect.Uint8 || elemIsNumeric(p.Type().Elem().Kind())) {
			// typed arrays and byte strings are atomic: all or nothing
			return equalValues(p, f, path)
		}
		if p.Len() > f.Len() {
			return false, fmt.Sprintf("%s: partial has %d elements, full value %d", path, p.Len(), f.Len())
		}
		for i := 0; i < p.Len(); i++ {
			if i == p.Len()-1 {
				if ok, why := isPrefixValue(p.Index(i), f.Index(i), fmt.Sprintf("%s[%d]", path, i)); !ok {
					return false, why
				}
			} else if ok, why := isPrefixValue(p.Index(i), f.Index(i), fmt.Sprintf("%s[%d]", path, i)); !ok {
				// earlier elements were completely decoded — but an array destination may hold untouched zero slots
				if p.Kind() == reflect.Array && p.Index(i).IsZero() {
					continue
				}
				return false, why
			}
		}
		return true, ""
	case reflect.Map:
		for _, k := range p.MapKeys() {
			fv := f.MapIndex(k)
			if !fv.IsValid() {
				// keys that are pointers (e.g. *url.URL) are distinct objects in the two results: match by value
				kd := dumpValue(k.Interface())
				for _, fk := range f.MapKeys() {
					if dumpValue(fk.Interface()) == kd {
						fv = f.MapIndex(fk)
						break
					}
				}
			}
			if !fv.IsValid() {
				return false, fmt.Sprintf("%s: key %v is in the partial result but not in the full value", path, k)
			}
			if ok, why := isPrefixValue(p.MapIndex(k), fv, fmt.Sprintf("%s[%v]", path, k)); !ok {
				return false, why
			}
		}
		return true, ""
	case reflect.Struct:
		for i := 0; i < p.NumField(); i++ {
			if p.Type().Field(i).PkgPath != "" {
				continue
			}
			if ok, why := isPrefixValue(p.Field(i), f.Field(i), path+"."+p.Type().Field(i).Name); !ok {
				return false, why
			}
		}
		return true, ""
	case reflect.String:
		if p.String() == f.String() {
			return true, ""
		}
		if leafSlack > 0 {
			leafSlack--
			return true, ""
		}
		return false, fmt.Sprintf("%s: string %q vs %q", path, p.String(), f.String())
	}
	ok, why := equalValues(p, f, path)
	if !ok && leafSlack > 0 {
		leafSlack--
		return true, ""
	}
	return ok, why
}

func elemIsNumeric(k reflect.Kind) bool {
	_, ok := elemArrayTypes[k]
	return ok || k == reflect.Bool
}

// C09: truncated documents are rejected and partial results are prefixes.
var abortC09 bool

func runC09(r *Run) {
	cfg := configuration.New()
	r.each(func(idx int, rng *Rng) {
		type docT struct {
			format   string
			doc      []byte
			template interface{}
			desc     string
		}
		var docs []docT
		if idx%2 == 0 {
			// untyped: generated event streams (healthy core of C06)
			gc := untypedBaseCfg()
			gc.NoComments = false
			if idx%4 == 0 {
				// markers (without references: references in untyped containers are a recorded C06 finding)
				gc.NoMarkers = false
				gc.NoRefs = true
				gc.MarkerHeavy = true
			}
			g := NewGen(rng, gc)
			evs := g.Doc()
			if v, _ := runRules(evs, cfg); v != "ACC" {
				return
			}
			if d, err := cbeEncode(evs, cfg); err == nil {
				docs = append(docs, docT{"cbe", d, nil, EventsText(evs)})
			}
			// CTE: only when the top-level value is a container
			top := ""
			for _, e := range evs[2:] {
				if e.K == "pad" || e.K == "cm" {
					continue
				}
				top = e.K
				if e.K == "rt" {
					top = ""
				}
				break
			}
			if top == "l" || top == "m" {
				if d, err := cteEncode(evs, cfg); err == nil {
					docs = append(docs, docT{"cte", d, nil, EventsText(evs)})
				}
			}
		} else {
			tg := NewTyGen(rng, "none")
			depth := 1 + rng.Intn(3)
			ty := tg.GenType(depth)
			val := tg.GenValue(ty, depth)
			tg.ScanType(ty)
			if featureKey(tg.Features()) != "" {
				return
			}
			desc := fmt.Sprintf("%s = %s", ty.String(), trunc(dumpValue(val.Interface()), 800))
			tmplTy := ty
			if ty.Kind() == reflect.Struct && ty.NumField() >= 2 && rng.P(1, 3) {
				// a template that lacks one of the document's fields: its value is skipped by an ignoring builder
				drop := rng.Intn(ty.NumField())
				var fields []reflect.StructField
				for i := 0; i < ty.NumField(); i++ {
					if i != drop && ty.Field(i).PkgPath == "" {
						fields = append(fields, ty.Field(i))
					}
				}
				if len(fields) > 0 {
					tmplTy = reflect.StructOf(fields)
					desc = "narrow template (field " + ty.Field(drop).Name + " missing) " + desc
					r.out.Count("template:narrower-struct")
				}
			}
			if d, err := ce.MarshalToCBEDocument(val.Interface(), cfg); err == nil {
				docs = append(docs, docT{"cbe", d, reflect.Zero(tmplTy).Interface(), desc})
			}
			switch ty.Kind() {
			case reflect.Slice, reflect.Array, reflect.Map, reflect.Struct:
				if ty.Kind() != reflect.Slice || ty.Elem().Kind() >= reflect.Array {
					if d, err := ce.MarshalToCTEDocument(val.Interface(), cfg); err == nil && len(d) > 3 {
						last := d[len(d)-1]
						if last == ']' || last == '}' {
							docs = append(docs, docT{"cte", d, reflect.Zero(tmplTy).Interface(), desc})
						}
					}
				}
			}
		}
		for _, dc := range docs {
			unm := func(b []byte) (interface{}, error, interface{}) {
				if abortC09 {
					return nil, fmt.Errorf("skipped: an earlier call is still running"), nil
				}
				type res struct {
					v   interface{}
					err error
					pan interface{}
				}
				ch := make(chan res, 1)
				go func() {
					v, err, pan := safeCall(func() (interface{}, error) {
						if dc.format == "cbe" {
							return ce.UnmarshalFromCBEDocument(b, dc.template, cfg)
						}
						return ce.UnmarshalFromCTEDocument(b, dc.template, cfg)
					})
					ch <- res{v, err, pan}
				}()
				select {
				case x := <-ch:
					return x.v, x.err, x.pan
				case <-time.After(60 * time.Second):
					// the call does not return (a truncated document must be refused, not chewed on for ever):
					// reported, and nothing is measured after it - the goroutine is still running
					abortC09 = true
					r.out.Finding("C09", "hang:"+dc.format, fmt.Sprintf("unmarshaling %d bytes of a %d-byte document does not return within 60 s", len(b), len(dc.doc)), dc.format+":"+hx(b))
					return nil, fmt.Errorf("hang"), nil
				}
			}
			full, ferr, fpan := unm(dc.doc)
			if abortC09 {
				return
			}
			if ferr != nil || fpan != nil {
				r.out.Count("skipped:full-document-fails")
				continue
			}
			typed := "untyped"
			if dc.template != nil {
				typed = "typed"
			}
			r.out.Case(dc.format+":"+hx(dc.doc), len(dc.doc) > 3)
			r.out.Count("documents:" + dc.format + ":" + typed)
			if idx%80 == 0 {
				r.out.Sample(dc.format + " " + typed + ": " + docText(dc.format, dc.doc) + " <= " + trunc(dc.desc, 300))
			}
			lo := 1
			hi := len(dc.doc)
			if dc.format == "cte" {
				// cut before the final closer (and anything before it)
				hi = len(dc.doc) - 1
				for hi > 0 && (dc.doc[hi] == '\n' || dc.doc[hi] == ' ') {
					hi--
				}
				hi++
			}
			step := 1
			if hi-lo > 120 {
				step = (hi - lo) / 120
			}
			var prevPart interface{}
			prevK, havePrev := 0, false
			for k := lo; k < hi; k += step {
				r.out.Count("cuts:" + dc.format)
				part, perr, ppan := unm(dc.doc[:k])
				if ppan != nil {
					r.out.Finding("C09", "panic:"+dc.format+":"+typed, fmt.Sprintf("unmarshaling a document cut at byte %d of %d lets a panic escape: %v", k, len(dc.doc), ppan), dc.format+":"+hx(dc.doc[:k]))
					continue
				}
				if perr == nil {
					r.out.Finding("C09", "truncated-accepted:"+dc.format+":"+typed, fmt.Sprintf("a document cut at byte %d of %d unmarshals without error", k, len(dc.doc)), dc.format+":"+docText(dc.format, dc.doc[:k])+" of "+docText(dc.format, dc.doc))
					continue
				}
				leafSlack = 0
				textMode = dc.format == "cte"
				if textMode {
					leafSlack = 1
				}
				if ok, why := isPrefixValue(reflect.ValueOf(part), reflect.ValueOf(full), "v"); !ok {
					r.out.Finding("C09", "partial-not-prefix:"+dc.format+":"+typed, fmt.Sprintf("cut at byte %d of %d: the partial result is not a prefix of the full value at %s", k, len(dc.doc), why),
						dc.format+":"+docText(dc.format, dc.doc[:k])+" of "+docText(dc.format, dc.doc)+" partial="+trunc(dumpValue(part), 300)+" full="+trunc(dumpValue(full), 300))
				}
				// "elements and entries that were completely decoded are present": whatever an earlier cut
				// already delivered was completely decoded there, so a later cut must deliver it too
				// (seeded change C09A3 returned nil once a node or an ignored field was open)
				// (CBE only: a CTE document cut inside a token may deliver a shorter complete token, which a
				// later cut - inside an escape sequence, say - legitimately takes back)
				if havePrev && !textMode {
					leafSlack = 0
					if ok, why := isPrefixValue(reflect.ValueOf(prevPart), reflect.ValueOf(part), "v"); !ok {
						r.out.Finding("C09", "partial-loses-data:"+dc.format+":"+typed, fmt.Sprintf("cut at byte %d of %d delivers less than the cut at byte %d did (%s)", k, len(dc.doc), prevK, why),
							dc.format+":"+docText(dc.format, dc.doc[:k])+" of "+docText(dc.format, dc.doc)+" partial="+trunc(dumpValue(part), 300)+" earlier="+trunc(dumpValue(prevPart), 300))
					}
				}
				prevPart, prevK, havePrev = part, k, true
			}
			// model correspondence on a few cuts (CBE decoder alone)
			if dc.format == "cbe" {
				for j := 0; j < 4; j++ {
					k := 1 + rng.Intn(len(dc.doc)-1)
					raw, rerr := cbeDecode(dc.doc[:k], cfg, false)
					exp := "OK " + EventsText(raw)
					if rerr != nil {
						exp = "ERR " + errClass(rerr, cbeDecErrTable) + " " + EventsText(raw)
					}
					r.out.Line("corr", fmt.Sprintf("%d.%d", idx, k), "CBE.DEC", []string{hx(dc.doc[:k])}, exp)
				}
			}
		}
	})
}
