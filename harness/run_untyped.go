package main

import (
	"fmt"
	"strings"

	"github.com/kstenerud/go-concise-encoding/ce"
	"github.com/kstenerud/go-concise-encoding/configuration"
)

func init() {
	runners["C06"] = runC06
}

type population struct {
	key string
	cfg func(*GenCfg)
}

// sub-populations: the healthy core, and one feature each for the recorded findings
var c06Populations = []population{
	{"", func(c *GenCfg) {}},
	{"", func(c *GenCfg) {}},
	{"", func(c *GenCfg) {}},
	{"", func(c *GenCfg) { c.NoRecords = false }},
	{"edge", func(c *GenCfg) { c.NoEdgeNode = false; c.OnlyEdges = true }},
	{"node", func(c *GenCfg) { c.NoEdgeNode = false; c.OnlyNodes = true }},
	{"remote-reference", func(c *GenCfg) { c.NoRemoteRef = false }},
	{"local-reference", func(c *GenCfg) { c.NoMarkers = false; c.NoRefs = false }},
	{"local-reference", func(c *GenCfg) { c.NoMarkers = false; c.NoRefs = false; c.MarkerHeavy = true }},
	{"rid-not-url", func(c *GenCfg) { c.UrlRids = false }},
	{"marker", func(c *GenCfg) { c.NoMarkers = false; c.NoRefs = true }},
	{"time", func(c *GenCfg) { c.NoTimes = false }},
	{"bit-array", func(c *GenCfg) { c.NoBitArrays = false }},
	{"uid-array", func(c *GenCfg) { c.NoUIDArrays = false }},
	{"nan-in-float-array", func(c *GenCfg) { c.NoArrayNaN = false }},
}

func untypedBaseCfg() GenCfg {
	return GenCfg{MaxDepth: 5, Budget: 25, NoCustom: true, NoCustomText: true, NoEdgeNode: true, NoRemoteRef: true,
		NoMarkers: true, UrlRids: true, NoBigFloat: false, NoNaNPayload: true, NoTimes: true, NoBitArrays: true, NoUIDArrays: true, NoArrayNaN: true}
}

// safeUnmarshal guards against panics escaping the entry point.
func safeCall(fn func() (interface{}, error)) (v interface{}, err error, panicked interface{}) {
	defer func() {
		if r := recover(); r != nil {
			panicked = r
		}
	}()
	v, err = fn()
	return
}

func shortErr(err error) string {
	s := err.Error()
	// drop a "line N, col M: " prefix and everything after the first quote / bracket
	if strings.HasPrefix(s, "line ") {
		if k := strings.Index(s, ": "); k >= 0 {
			s = s[k+2:]
		}
	}
	for i, c := range s {
		if c == '"' || c == '[' || c == '{' {
			s = s[:i]
			break
		}
	}
	if len(s) > 80 {
		s = s[:80]
	}
	return strings.TrimSpace(s)
}

// C06: any valid document unmarshals into an untyped value.
func runC06(r *Run) {
	cfg := configuration.New()
	r.each(func(idx int, rng *Rng) {
		pop := c06Populations[idx%len(c06Populations)]
		gc := untypedBaseCfg()
		pop.cfg(&gc)
		g := NewGen(rng, gc)
		evs := g.Doc()
		text := EventsText(evs)
		key := pop.key
		if key == "local-reference" {
			// the recorded finding is about one shape only; every other document with local references
			// belongs to the healthy core
			if refInKeyPosition(evs) {
				key = "local-reference:ref-as-key"
			} else {
				key = ""
				r.out.Count("local-reference:healthy-shapes")
			}
		}
		sfx := ""
		if key != "" {
			sfx = "|" + key
		}
		r.out.Count("population:" + key)
		r.out.Case(text, len(evs) > 4)
		if verdict, _ := runRules(evs, cfg); verdict != "ACC" {
			r.out.Count("skipped:rules-reject")
			return
		}
		for _, format := range []string{"cbe", "cte"} {
			var doc []byte
			var err error
			if format == "cbe" {
				doc, err = cbeEncode(evs, cfg)
			} else {
				doc, err = cteEncode(evs, cfg)
			}
			if err != nil {
				r.out.Count("skipped:encode-error:" + format)
				continue
			}
			// the decoder+rules must accept it (else not C06's domain)
			var back []Event
			var derr error
			if format == "cbe" {
				back, derr = cbeDecode(doc, cfg, true)
			} else {
				back, derr = cteDecode(doc, cfg, true)
			}
			if derr != nil {
				r.out.Count("skipped:decode-reject:" + format)
				continue
			}
			id := fmt.Sprintf("%d.%s%s", idx, format, sfx)
			v, uerr, pan := safeCall(func() (interface{}, error) {
				if format == "cbe" {
					return ce.UnmarshalFromCBEDocument(doc, nil, cfg)
				}
				return ce.UnmarshalFromCTEDocument(doc, nil, cfg)
			})
			if pan != nil {
				r.out.Finding("C06", joinKey(key, "panic"), fmt.Sprintf("unmarshal(%s, nil) lets a panic escape: %v", format, pan), format+":"+hx(doc))
				continue
			}
			if uerr != nil {
				r.out.Finding("C06", joinKey(key, "unmarshal-error"), fmt.Sprintf("a document the %s decoder with rules accepts does not unmarshal into interface{}: %s", format, shortErr(uerr)), format+":"+hx(doc))
				continue
			}
			r.out.Count("unmarshaled:" + format)
			doc2, merr, pan2 := safeCall(func() (interface{}, error) { return ce.MarshalToCBEDocument(v, cfg) })
			if pan2 != nil || merr != nil {
				r.out.Finding("C06", joinKey(key, "remarshal-error"), fmt.Sprintf("the value unmarshaled from a valid %s document cannot be marshaled again: %v %v", format, merr, pan2), format+":"+hx(doc))
				continue
			}
			evs2, d2err := cbeDecode(doc2.([]byte), cfg, false)
			if d2err != nil {
				r.out.Finding("C06", joinKey(key, "remarshal-undecodable"), "the re-marshaled value does not decode: "+shortErr(d2err), format+":"+hx(doc))
				continue
			}
			if idx%40 == 0 {
				r.out.Sample(format + ": " + text + " => " + dumpValue(v))
			}
			// same data: records as maps, references resolved, comments dropped, map order irrelevant
			r.out.Line("prop", id, "TREE.EQ", []string{"1h", "0h", EventsText(back), EventsText(evs2)}, "1")
		}
	})
}

// refInKeyPosition: does a local reference stand where a map key is expected? (the one shape of
// local references that the pinned builders get wrong: recorded finding C06/local-reference:ref-as-key)
func refInKeyPosition(evs []Event) bool {
	type frame struct {
		kind  string
		count int
	}
	var stack []frame
	object := func() {
		for len(stack) > 0 {
			top := &stack[len(stack)-1]
			top.count++
			if top.kind == "e" && top.count == 3 {
				stack = stack[:len(stack)-1] // an edge ends with its third component
				continue
			}
			return
		}
	}
	for i := 0; i < len(evs); i++ {
		switch evs[i].K {
		case "bd", "ed", "v", "pad", "cm", "mk", "ac", "ad":
		case "ref":
			if len(stack) > 0 && stack[len(stack)-1].kind == "m" && stack[len(stack)-1].count%2 == 0 {
				return true
			}
			object()
		case "l", "m", "r", "nd", "e":
			k := evs[i].K
			if k != "m" && k != "e" {
				k = "l"
			}
			stack = append(stack, frame{kind: k})
		case "rt":
			stack = append(stack, frame{kind: "rt"})
		case "end":
			if len(stack) > 0 {
				k := stack[len(stack)-1].kind
				stack = stack[:len(stack)-1]
				if k != "rt" {
					object()
				}
			}
		default:
			object()
		}
	}
	return false
}

func joinKey(a, b string) string {
	if a == "" {
		return b
	}
	return a + ":" + b
}
