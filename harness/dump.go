package main

// Canonical, cycle-safe rendering of Go values (results of unmarshal): map entries sorted,
// floats by bit pattern, big numbers and times by value, shared/cyclic pointers as back references.

import (
	"fmt"
	"math"
	"math/big"
	"net/url"
	"reflect"
	"sort"
	"strings"
	"time"

	"github.com/cockroachdb/apd/v2"
	compact_float "github.com/kstenerud/go-compact-float"
	compact_time "github.com/kstenerud/go-compact-time"
)

type dumper struct {
	sb      strings.Builder
	seen    map[uintptr]int
	nextID  int
	budget  int
}

func dumpValue(v interface{}) string {
	d := &dumper{seen: map[uintptr]int{}, budget: 200000}
	if v == nil {
		return "nil"
	}
	d.dump(reflect.ValueOf(v), 0)
	return d.sb.String()
}

func (d *dumper) w(format string, args ...interface{}) {
	if d.budget <= 0 {
		return
	}
	s := fmt.Sprintf(format, args...)
	d.budget -= len(s)
	d.sb.WriteString(s)
}

func (d *dumper) dump(v reflect.Value, depth int) {
	if d.budget <= 0 {
		return
	}
	if depth > 2000 {
		d.w("<deep>")
		return
	}
	if !v.IsValid() {
		d.w("nil")
		return
	}
	// well-known value types first
	if v.CanInterface() {
		switch x := v.Interface().(type) {
		case time.Time:
			d.w("time(%s)", x.Format(time.RFC3339Nano))
			return
		case compact_time.Time:
			d.w("ctime(%s)", timeText(x))
			return
		case big.Int:
			d.w("bigint(%s)", x.String())
			return
		case *big.Int:
			if x == nil {
				d.w("(*bigint)nil")
			} else {
				d.w("*bigint(%s)", x.String())
			}
			return
		case big.Float:
			d.w("bigfloat(%s%s)", bigFloatText(&x), bigFloatFlags(&x))
			return
		case *big.Float:
			if x == nil {
				d.w("(*bigfloat)nil")
			} else {
				d.w("*bigfloat(%s%s)", bigFloatText(x), bigFloatFlags(x))
			}
			return
		case apd.Decimal:
			d.w("apd(%s)", x.String())
			return
		case *apd.Decimal:
			if x == nil {
				d.w("(*apd)nil")
			} else {
				d.w("*apd(%s)", x.String())
			}
			return
		case compact_float.DFloat:
			d.w("dfloat(%d,%d)", x.Exponent, x.Coefficient)
			return
		case url.URL:
			d.w("url(%s)", x.String())
			return
		case *url.URL:
			if x == nil {
				d.w("(*url)nil")
			} else {
				d.w("*url(%s)", x.String())
			}
			return
		}
	}
	switch v.Kind() {
	case reflect.Bool:
		d.w("%v", v.Bool())
	case reflect.Int, reflect.Int8, reflect.Int16, reflect.Int32, reflect.Int64:
		d.w("%s(%d)", v.Type().String(), v.Int())
	case reflect.Uint, reflect.Uint8, reflect.Uint16, reflect.Uint32, reflect.Uint64, reflect.Uintptr:
		d.w("%s(%d)", v.Type().String(), v.Uint())
	case reflect.Float32:
		d.w("f32(%08x)", math.Float32bits(float32(v.Float())))
	case reflect.Float64:
		d.w("f64(%016x)", canonFloatBits(v.Float()))
	case reflect.Complex64, reflect.Complex128:
		d.w("complex(%v)", v.Complex())
	case reflect.String:
		d.w("%q", v.String())
	case reflect.Interface:
		if v.IsNil() {
			d.w("nil")
		} else {
			d.dump(v.Elem(), depth+1)
		}
	case reflect.Ptr:
		if v.IsNil() {
			d.w("(%s)nil", v.Type().String())
			return
		}
		if id, ok := d.seen[v.Pointer()]; ok {
			d.w("^%d", id)
			return
		}
		d.nextID++
		d.seen[v.Pointer()] = d.nextID
		d.w("&%d:", d.nextID)
		d.dump(v.Elem(), depth+1)
	case reflect.Slice:
		if v.IsNil() {
			d.w("%s(nil)", v.Type().String())
			return
		}
		if v.Type().Elem().Kind() == reflect.Uint8 {
			d.w("bytes(%x)", v.Bytes())
			return
		}
		if v.Len() > 0 {
			if id, ok := d.seen[v.Pointer()]; ok && false {
				d.w("^%d", id)
				return
			}
		}
		d.w("%s[", v.Type().String())
		for i := 0; i < v.Len(); i++ {
			if i > 0 {
				d.w(" ")
			}
			d.dump(v.Index(i), depth+1)
		}
		d.w("]")
	case reflect.Array:
		d.w("%s[", v.Type().String())
		for i := 0; i < v.Len(); i++ {
			if i > 0 {
				d.w(" ")
			}
			d.dump(v.Index(i), depth+1)
		}
		d.w("]")
	case reflect.Map:
		if v.IsNil() {
			d.w("%s(nil)", v.Type().String())
			return
		}
		if id, ok := d.seen[v.Pointer()]; ok {
			d.w("^%d", id)
			return
		}
		d.nextID++
		d.seen[v.Pointer()] = d.nextID
		type kv struct{ k, v string }
		// Order the keys first (by a dump that assigns no labels), then dump keys and values in that
		// order: the labels given to shared pointers must not depend on Go's random map iteration
		// (pointers to zero-size values all share one address, so they alias each other).
		keys := v.MapKeys()
		keyText := make(map[int]string, len(keys))
		for i, k := range keys {
			tmpSeen := make(map[uintptr]int, len(d.seen))
			for p, id := range d.seen {
				tmpSeen[p] = id
			}
			kd := &dumper{seen: tmpSeen, nextID: d.nextID, budget: 5000}
			kd.dump(k, depth+1)
			keyText[i] = kd.sb.String()
		}
		order := make([]int, len(keys))
		for i := range order {
			order[i] = i
		}
		sort.Slice(order, func(a, b int) bool { return keyText[order[a]] < keyText[order[b]] })
		var entries []kv
		for _, i := range order {
			k := keys[i]
			kd := &dumper{seen: d.seen, nextID: d.nextID, budget: 5000}
			kd.dump(k, depth+1)
			d.nextID = kd.nextID
			vd := &dumper{seen: d.seen, nextID: d.nextID, budget: d.budget / 2}
			vd.dump(v.MapIndex(k), depth+1)
			d.nextID = vd.nextID
			entries = append(entries, kv{kd.sb.String(), vd.sb.String()})
		}
		d.w("%s{", v.Type().String())
		for i, e := range entries {
			if i > 0 {
				d.w(" ")
			}
			d.w("%s=%s", e.k, e.v)
		}
		d.w("}")
	case reflect.Struct:
		d.w("%s{", v.Type().String())
		for i := 0; i < v.NumField(); i++ {
			if i > 0 {
				d.w(" ")
			}
			d.w("%s:", v.Type().Field(i).Name)
			d.dump(v.Field(i), depth+1)
		}
		d.w("}")
	default:
		d.w("<%s>", v.Kind().String())
	}
}

// dumpBigFloatFlags: also show a big.Float's accuracy flag and rounding mode (C18 only: they are part of
// the caller's value, not of the data that is written)
var dumpBigFloatFlags bool

func bigFloatFlags(x *big.Float) string {
	if !dumpBigFloatFlags {
		return ""
	}
	return fmt.Sprintf(" acc=%v mode=%v", x.Acc(), x.Mode())
}
