package main

// C16: reused instances behave like fresh ones.
//
// A history is a sequence of operations on ONE instance (marshaler, unmarshaler, decoder,
// event-level encoder, validator); every operation is also run on a freshly created instance
// and the two observations (output bytes / value / events / error-ness) must be identical.
// Operations include valid and invalid documents and values, unsupported types, documents
// abandoned half way (encoders, validator) and documents near a size limit.

import (
	"sort"
	"bytes"
	"fmt"
	"reflect"
	"strings"
	"time"

	"github.com/kstenerud/go-concise-encoding/cbe"
	"github.com/kstenerud/go-concise-encoding/ce"
	"github.com/kstenerud/go-concise-encoding/ce/events"
	"github.com/kstenerud/go-concise-encoding/configuration"
	"github.com/kstenerud/go-concise-encoding/cte"
	"github.com/kstenerud/go-concise-encoding/rules"
)

func init() {
	runners["C16"] = runC16
}

// withWatchdog runs fn in a goroutine; a call that does not return within the limit is a hang.
func withWatchdog(limit time.Duration, fn func() string) (res string, hung bool) {
	ch := make(chan string, 1)
	go func() {
		defer func() {
			if r := recover(); r != nil {
				ch <- fmt.Sprintf("PANIC %v", r)
			}
		}()
		ch <- fn()
	}()
	select {
	case s := <-ch:
		return s, false
	case <-time.After(limit):
		return "HANG", true
	}
}

type unsupportedA struct {
	A int
	C chan int
}
type unsupportedB struct {
	F func()
	S string
}
type unsupportedC struct {
	X []complex128
}

// a fresh unsupported struct type per call (so the type caches have never seen it)
func freshUnsupported(rng *Rng) reflect.Value {
	bad := []reflect.Type{reflect.TypeOf(make(chan int)), reflect.TypeOf(func() {}), reflect.TypeOf(complex128(0))}
	fields := []reflect.StructField{
		{Name: fmt.Sprintf("A%d", rng.Intn(1000000)), Type: reflect.TypeOf(int(0))},
		{Name: fmt.Sprintf("B%d", rng.Intn(1000000)), Type: bad[rng.Intn(len(bad))]},
	}
	return reflect.New(reflect.StructOf(fields)).Elem()
}

// error classes: error texts are not compared (they may hold addresses), but a Go run-time
// error (nil dereference, index out of range) is a different outcome from a reported failure
func errness(err error) string {
	if err == nil {
		return "ok"
	}
	if strings.Contains(err.Error(), "runtime error") || strings.Contains(err.Error(), "invalid memory address") {
		return "ERR-RUNTIME"
	}
	return "ERR"
}

// a declared recursive type whose unsupported field comes last: pointer and slice iterators for
// it are generated (and cached) while the generation of the type itself is still in flight
type unsupportedTree struct {
	Name     string
	Children []*unsupportedTree
	Notify   chan int
}

// recursive only through a map KEY
type unsupportedKeyNode struct {
	Labels map[*unsupportedKeyNode]string
	Wake   chan int
}

// the recursive field declared before the unsupported one
type unsupportedLink struct {
	Name  string
	Next  *unsupportedLink
	Ready chan int
}

// set per history: every unmarshal of the history uses the declared recursive unsupported types
// (the second and later calls then reach the type through wrappers cached by the first)
var reuseRecursiveBias bool

type reuseOp struct {
	desc string
	run  func(inst interface{}) string // observation on the given instance
}

type reuseKind struct {
	name  string
	fresh func() interface{}
	gen   func(rng *Rng, cfg *configuration.Configuration) reuseOp
}

// values with shared and cyclic pointers: with Iterator.RecursionSupport the marshalers name them with
// markers, and the names must start afresh in every document (seeded change C16B3 kept counting)
type c16Shared struct {
	Name  string
	Next  *c16Shared
	Other *c16Shared
}

func genValueOp(rng *Rng, marshal func(inst interface{}, v interface{}) ([]byte, error)) reuseOp {
	vsel := rng.Intn(7)
	if reuseRecursiveBias {
		vsel = 1
	}
	switch vsel {
	case 6:
		a, b := &c16Shared{Name: "a"}, &c16Shared{Name: "b"}
		var v interface{}
		switch rng.Intn(4) {
		case 0:
			v = []*c16Shared{a, a}
		case 1:
			a.Next = a
			v = a
		case 2:
			a.Next, a.Other, b.Other = b, b, a
			v = []*c16Shared{a, b, a}
		default:
			v = []*c16Shared{a, b}
		}
		return reuseOp{fmt.Sprintf("shared pointers %d", rng.Intn(1000)), func(inst interface{}) string {
			d, err := marshal(inst, v)
			if err != nil {
				return errness(err)
			}
			return "ok " + hx(d)
		}}
	case 0:
		v := freshUnsupported(rng)
		return reuseOp{"unsupported-fresh-type " + v.Type().String(), func(inst interface{}) string {
			d, err := marshal(inst, v.Interface())
			if err != nil {
				return errness(err)
			}
			return "ok " + hx(d)
		}}
	case 1:
		var v interface{}
		isel := rng.Intn(6)
		if reuseRecursiveBias {
			isel = 3 + rng.Intn(3)
		}
		switch isel {
		case 0:
			v = unsupportedA{A: 1}
		case 1:
			v = &unsupportedB{S: "x"}
		case 2:
			v = []unsupportedC{{}}
		case 3:
			if rng.P(1, 2) {
				v = unsupportedKeyNode{}
			} else {
				v = unsupportedTree{Name: "t"}
			}
		case 4:
			v = &unsupportedTree{Name: "t"}
		default:
			if rng.P(1, 2) {
				k := &unsupportedKeyNode{}
				if rng.P(1, 2) {
					v = map[*unsupportedKeyNode]string{k: "x"}
				} else {
					v = map[*unsupportedKeyNode]string{}
				}
			} else {
				v = []*unsupportedTree{{Name: "a"}}
			}
		}
		return reuseOp{fmt.Sprintf("unsupported %T", v), func(inst interface{}) string {
			d, err := marshal(inst, v)
			if err != nil {
				return errness(err)
			}
			return "ok " + hx(d)
		}}
	default:
		tg := NewTyGen(rng, "none")
		depth := 1 + rng.Intn(3)
		ty := tg.GenType(depth)
		val := tg.GenValue(ty, depth)
		return reuseOp{"value " + ty.String(), func(inst interface{}) string {
			d, err := marshal(inst, val.Interface())
			if err != nil {
				return errness(err)
			}
			return "ok " + hx(d)
		}}
	}
}

func genDocOp(rng *Rng, cfg *configuration.Configuration, format string, unmarshal func(inst interface{}, doc []byte, template interface{}, stream bool) (interface{}, error)) reuseOp {
	var doc []byte
	var template interface{}
	what := ""
	if rng.P(1, 3) {
		tg := NewTyGen(rng, "none")
		depth := 1 + rng.Intn(3)
		ty := tg.GenType(depth)
		val := tg.GenValue(ty, depth)
		var err error
		if format == "cbe" {
			doc, err = ce.MarshalToCBEDocument(val.Interface(), cfg)
		} else {
			doc, err = ce.MarshalToCTEDocument(val.Interface(), cfg)
		}
		if err == nil {
			template = reflect.Zero(ty).Interface()
			what = "typed " + ty.String()
		}
	}
	if doc == nil {
		gc := untypedBaseCfg()
		g := NewGen(rng, gc)
		evs := g.Doc()
		if format == "cbe" {
			doc, _ = cbeEncode(evs, cfg)
		} else {
			doc, _ = cteEncode(evs, cfg)
		}
		what = "untyped"
	}
	sel := rng.Intn(8)
	if reuseRecursiveBias {
		sel = 2
	}
	switch sel {
	case 0:
		if len(doc) > 3 {
			doc = doc[:1+rng.Intn(len(doc)-1)]
			what += " truncated"
		}
	case 1:
		if len(doc) > 3 {
			doc = cloneBytes(doc)
			doc[2+rng.Intn(len(doc)-2)] ^= byte(1 << uint(rng.Intn(8)))
			what += " bitflip"
		}
	case 2:
		tsel := rng.Intn(4)
		if reuseRecursiveBias {
			tsel = 2
		}
		switch tsel {
		case 0:
			template = unsupportedA{}
		case 1:
			template = freshUnsupported(rng).Interface()
		default:
			// a declared recursive type with an unsupported field, reached directly or through the
			// pointer / slice / struct wrappers that are cached while its own generation is in flight;
			// the document holds real values at those positions
			template = []interface{}{unsupportedTree{}, &unsupportedTree{}, unsupportedLink{}, &unsupportedLink{}, struct{ Root *unsupportedLink }{},
				[]*unsupportedTree{}, struct{ Root *unsupportedTree }{}, []struct{ T *unsupportedLink }{}}[rng.Intn(8)]
			text := []string{
				`c0 {"name"="a" "children"=[{"name"="b"}] "next"={"name"="c" "next"={"name"="d"}} "root"={"name"="e" "next"={"name"="f"} "children"=[{"name"="g"}]} "t"={"name"="h"}}`,
				`c0 [{"name"="a" "children"=[{"name"="b"}] "next"={"name"="c"} "root"={"name"="e"} "t"={"name"="h" "next"={"name"="i"}}}]`,
			}[rng.Intn(2)]
			if _, isSlice := template.([]*unsupportedTree); isSlice {
				text = `c0 [{"name"="a" "children"=[{"name"="b"}]} {"name"="c"}]`
			}
			doc = []byte(text)
			if format == "cbe" {
				if evs, err := cteDecode(doc, cfg, false); err == nil {
					doc, _ = cbeEncode(evs, cfg)
				}
			}
			what = "recursive"
		}
		what += " unsupported-template"
	case 3:
		doc = nil
		what += " empty"
	case 4:
		// a string chunk that ends inside a multi-byte character (fails), or a long chunked string that
		// a validator still holding such a remainder would misread
		if format == "cbe" {
			if rng.P(1, 2) {
				doc = [][]byte{{0x81, 0, 0x90, 0x02, 0xe2}, {0x81, 0, 0x90, 0x04, 0x61, 0xc3}, {0x81, 0, 0x9a, 0x90, 0x07, 0x61, 0x62, 0xf0}}[rng.Intn(3)]
				what = "string chunk ends mid-character"
			} else {
				txt := []string{"abcdefghijklmnop", "\x82\xacbcdefghijklmnopq", "\xa9 long enough to be chunked"}[rng.Intn(3)]
				doc = append([]byte{0x81, 0, 0x90, byte(len(txt) << 1)}, txt...)
				what = "long string"
			}
			template = nil
		}
	}
	stream := rng.P(1, 2)
	return reuseOp{fmt.Sprintf("%s %s stream=%v %s", format, what, stream, docText(format, doc)), func(inst interface{}) string {
		v, err := unmarshal(inst, doc, template, stream)
		return errness(err) + " " + dumpValue(v)
	}}
}

func genDecodeOp(rng *Rng, cfg *configuration.Configuration, format string, decode func(inst interface{}, doc []byte, stream bool, rcv events.DataEventReceiver) error) reuseOp {
	docs := genDocs(rng, cfg)
	var cands []docCase
	for _, d := range docs {
		if d.format == format {
			cands = append(cands, d)
		}
	}
	if len(cands) == 0 {
		cands = []docCase{{format, []byte{}, "empty"}}
	}
	dc := cands[rng.Intn(len(cands))]
	stream := rng.P(1, 2)
	withRules := rng.P(1, 2)
	return reuseOp{fmt.Sprintf("%s %s stream=%v rules=%v %s", format, dc.what, stream, withRules, docText(format, dc.doc)), func(inst interface{}) string {
		rec := &Recorder{}
		var rcv events.DataEventReceiver = rec
		if withRules {
			rcv = rules.NewRules(rec, cfg)
		}
		err := decode(inst, dc.doc, stream, rcv)
		return errness(err) + " " + EventsText(rec.Evs)
	}}
}

// event-level encoders and the validator: whole streams, abandoned prefixes, invalid streams
func genStreamOp(rng *Rng, cfg *configuration.Configuration, gc GenCfg, allowInvalid bool, play func(inst interface{}, evs []Event) string) reuseOp {
	g := NewGen(rng, gc)
	evs := g.Doc()
	what := "whole"
	switch rng.Intn(4) {
	case 0:
		if len(evs) > 3 {
			evs = evs[:2+rng.Intn(len(evs)-2)]
			what = "abandoned"
		}
	case 1:
		// invalid streams only for the validator: the encoders are specified for valid event
		// sequences (what they do with an array-data event outside an array is not defined)
		if allowInvalid {
			evs, what = mutate(rng, evs)
			what = "mutated:" + what
		}
	}
	return reuseOp{what + " " + EventsText(evs), func(inst interface{}) string { return play(inst, evs) }}
}

// markerNames: the sorted marker identifiers of a document
func markerNames(evs []Event) string {
	var ids []string
	for _, e := range evs {
		if e.K == "mk" {
			ids = append(ids, string(e.D))
		}
	}
	sort.Strings(ids)
	return "[" + strings.Join(ids, " ") + "]"
}

func reuseKinds(cfg *configuration.Configuration) []reuseKind {
	smallCfg := configuration.New()
	smallCfg.Rules.MaxDocumentSizeBytes = 200
	streamCfg := allGenCfg()
	streamCfg.NoCustomText = true
	cteStreamCfg := cteGenCfg()
	recCfg := configuration.New()
	recCfg.Iterator.RecursionSupport = true
	return []reuseKind{
		{"cbe-recursion-marshaler", func() interface{} { return ce.NewCBEMarshaler(recCfg) }, func(rng *Rng, c *configuration.Configuration) reuseOp {
			return genValueOp(rng, func(inst interface{}, v interface{}) ([]byte, error) { return inst.(ce.Marshaler).MarshalToDocument(v) })
		}},
		{"cte-recursion-marshaler", func() interface{} { return ce.NewCTEMarshaler(recCfg) }, func(rng *Rng, c *configuration.Configuration) reuseOp {
			return genValueOp(rng, func(inst interface{}, v interface{}) ([]byte, error) { return inst.(ce.Marshaler).MarshalToDocument(v) })
		}},
		{"cbe-marshaler", func() interface{} { return ce.NewCBEMarshaler(cfg) }, func(rng *Rng, c *configuration.Configuration) reuseOp {
			return genValueOp(rng, func(inst interface{}, v interface{}) ([]byte, error) { return inst.(ce.Marshaler).MarshalToDocument(v) })
		}},
		{"cte-marshaler", func() interface{} { return ce.NewCTEMarshaler(cfg) }, func(rng *Rng, c *configuration.Configuration) reuseOp {
			return genValueOp(rng, func(inst interface{}, v interface{}) ([]byte, error) { return inst.(ce.Marshaler).MarshalToDocument(v) })
		}},
		{"cbe-unmarshaler", func() interface{} { return ce.NewCBEUnmarshaler(cfg) }, func(rng *Rng, c *configuration.Configuration) reuseOp {
			return genDocOp(rng, cfg, "cbe", func(inst interface{}, doc []byte, t interface{}, stream bool) (interface{}, error) {
				if stream {
					return inst.(ce.Unmarshaler).Unmarshal(bytes.NewReader(doc), t)
				}
				return inst.(ce.Unmarshaler).UnmarshalFromDocument(doc, t)
			})
		}},
		{"cbe-unmarshaler-sizelimit", func() interface{} { return ce.NewCBEUnmarshaler(smallCfg) }, func(rng *Rng, c *configuration.Configuration) reuseOp {
			return genDocOp(rng, smallCfg, "cbe", func(inst interface{}, doc []byte, t interface{}, stream bool) (interface{}, error) {
				if stream {
					return inst.(ce.Unmarshaler).Unmarshal(bytes.NewReader(doc), t)
				}
				return inst.(ce.Unmarshaler).UnmarshalFromDocument(doc, t)
			})
		}},
		{"cte-unmarshaler", func() interface{} { return ce.NewCTEUnmarshaler(cfg) }, func(rng *Rng, c *configuration.Configuration) reuseOp {
			return genDocOp(rng, cfg, "cte", func(inst interface{}, doc []byte, t interface{}, stream bool) (interface{}, error) {
				if stream {
					return inst.(ce.Unmarshaler).Unmarshal(bytes.NewReader(doc), t)
				}
				return inst.(ce.Unmarshaler).UnmarshalFromDocument(doc, t)
			})
		}},
		{"cbe-decoder", func() interface{} { return ce.NewCBEDecoder(cfg) }, func(rng *Rng, c *configuration.Configuration) reuseOp {
			return genDecodeOp(rng, cfg, "cbe", func(inst interface{}, doc []byte, stream bool, rcv events.DataEventReceiver) error {
				if stream {
					return inst.(ce.Decoder).Decode(bytes.NewReader(doc), rcv)
				}
				return inst.(ce.Decoder).DecodeDocument(doc, rcv)
			})
		}},
		{"cbe-decoder-sizelimit", func() interface{} { return ce.NewCBEDecoder(smallCfg) }, func(rng *Rng, c *configuration.Configuration) reuseOp {
			return genDecodeOp(rng, smallCfg, "cbe", func(inst interface{}, doc []byte, stream bool, rcv events.DataEventReceiver) error {
				if stream {
					return inst.(ce.Decoder).Decode(bytes.NewReader(doc), rcv)
				}
				return inst.(ce.Decoder).DecodeDocument(doc, rcv)
			})
		}},
		{"cte-decoder", func() interface{} { return ce.NewCTEDecoder(cfg) }, func(rng *Rng, c *configuration.Configuration) reuseOp {
			return genDecodeOp(rng, cfg, "cte", func(inst interface{}, doc []byte, stream bool, rcv events.DataEventReceiver) error {
				if stream {
					return inst.(ce.Decoder).Decode(bytes.NewReader(doc), rcv)
				}
				return inst.(ce.Decoder).DecodeDocument(doc, rcv)
			})
		}},
		{"ce-decoder", func() interface{} { return ce.NewCEDecoder(cfg) }, func(rng *Rng, c *configuration.Configuration) reuseOp {
			f := "cbe"
			if rng.P(1, 2) {
				f = "cte"
			}
			return genDecodeOp(rng, cfg, f, func(inst interface{}, doc []byte, stream bool, rcv events.DataEventReceiver) error {
				if stream {
					return inst.(ce.Decoder).Decode(bytes.NewReader(doc), rcv)
				}
				return inst.(ce.Decoder).DecodeDocument(doc, rcv)
			})
		}},
		{"cbe-encoder", func() interface{} { return cbe.NewEncoder(cfg) }, func(rng *Rng, c *configuration.Configuration) reuseOp {
			return genStreamOp(rng, cfg, streamCfg, false, func(inst interface{}, evs []Event) string {
				enc := inst.(*cbe.Encoder)
				var buf bytes.Buffer
				enc.PrepareToEncode(&buf)
				n, err := playTo(evs, enc)
				return fmt.Sprintf("%s@%d %s", errness(err), n, hx(buf.Bytes()))
			})
		}},
		{"cte-encoder", func() interface{} { return cte.NewEncoder(cfg) }, func(rng *Rng, c *configuration.Configuration) reuseOp {
			return genStreamOp(rng, cfg, cteStreamCfg, false, func(inst interface{}, evs []Event) string {
				enc := inst.(*cte.EncoderEventReceiver)
				var buf bytes.Buffer
				enc.PrepareToEncode(&buf)
				n, err := playTo(evs, enc)
				return fmt.Sprintf("%s@%d %s", errness(err), n, strings.ReplaceAll(buf.String(), "\n", "\\n"))
			})
		}},
		{"rules", func() interface{} { rec := &Recorder{}; return []interface{}{rules.NewRules(rec, cfg), rec} }, func(rng *Rng, c *configuration.Configuration) reuseOp {
			return genStreamOp(rng, cfg, allGenCfg(), true, func(inst interface{}, evs []Event) string {
				pair := inst.([]interface{})
				r := pair[0].(*rules.RulesEventReceiver)
				rec := pair[1].(*Recorder)
				r.Reset()
				rec.Evs = nil
				n, err := playTo(evs, r)
				cls := "ok"
				if err != nil {
					cls = errClass(err, rulesErrTable)
				}
				return fmt.Sprintf("%s@%d %s", cls, n, EventsText(rec.Evs))
			})
		}},
	}
}

func runC16(r *Run) {
	cfg := configuration.New()
	kinds := reuseKinds(cfg)
	r.each(func(idx int, rng *Rng) {
		kind := kinds[idx%len(kinds)]
		n := 2 + rng.Intn(7)
		reuseRecursiveBias = rng.P(1, 4)
		inst := kind.fresh()
		var hist []string
		for i := 0; i < n; i++ {
			op := kind.gen(rng, cfg)
			hist = append(hist, trunc(op.desc, 400))
			want, hungF := withWatchdog(60*time.Second, func() string { return op.run(kind.fresh()) })
			if hungF {
				r.out.Finding("C16", "hang-fresh:"+kind.name, "a call on a FRESH instance does not return", strings.Join(hist, " || "))
				break
			}
			got, hung := withWatchdog(60*time.Second, func() string { return op.run(inst) })
			r.out.Count("ops:" + kind.name)
			if strings.HasPrefix(want, "ERR") || strings.HasPrefix(want, "PANIC") {
				r.out.Count("ops-failing:" + kind.name)
			}
			if hung {
				r.out.Finding("C16", "hang:"+kind.name, fmt.Sprintf("operation %d of the history on a reused %s does not return (fresh instance: %s)", i+1, kind.name, trunc(want, 80)), strings.Join(hist, " || "))
				break
			}
			if got != want && strings.HasPrefix(got, "ok ") && strings.HasPrefix(want, "ok ") && strings.HasSuffix(kind.name, "-marshaler") {
				// Go map iteration order is random: two marshal runs of one value may order map entries
				// differently.  Compare the documents as data (Lean tree equality up to map-entry order).
				da, _ := unhx(got[3:])
				db, _ := unhx(want[3:])
				var ea, eb []Event
				var e1, e2 error
				if strings.HasPrefix(kind.name, "cbe") {
					ea, e1 = cbeDecode(da, cfg, false)
					eb, e2 = cbeDecode(db, cfg, false)
				} else {
					ea, e1 = cteDecode(da, cfg, false)
					eb, e2 = cteDecode(db, cfg, false)
				}
				if e1 == nil && e2 == nil {
					// marker names are part of the output: map order may give them to different objects, but the
					// names in use are the same in a fresh and in a reused instance
					if ma, mb := markerNames(ea), markerNames(eb); ma != mb {
						r.out.Finding("C16", "differs:"+kind.name, fmt.Sprintf("operation %d of the history on a reused %s names its markers %s, a fresh instance %s", i+1, kind.name, ma, mb), strings.Join(hist, " || "))
						break
					}
					r.out.Line("prop", fmt.Sprintf("%d|differs:%s", idx, kind.name), "TREE.EQ", []string{"0", "0", EventsText(ea), EventsText(eb)}, "1")
					r.out.Count("marshal-compared-as-data")
					continue
				}
			}
			if got != want {
				r.out.Finding("C16", "differs:"+kind.name, fmt.Sprintf("operation %d of the history on a reused %s gives %s, a fresh instance gives %s", i+1, kind.name, trunc(got, 300), trunc(want, 300)), strings.Join(hist, " || "))
				break
			}
		}
		r.out.Case(kind.name+"|"+strings.Join(hist, "||"), n > 1)
		if idx%97 == 0 {
			r.out.Sample(kind.name + ": " + trunc(strings.Join(hist, " || "), 500))
		}
	})
}
