package main

// C23: CTE output depends only on the data.
//
// (1) every array of a generated rules-valid stream is re-chunked at random element
//     boundaries and its data split into data events at random byte offsets (mid-element,
//     mid-character): the CTE text must not change;
// (2) decode(text) encoded again reproduces the text exactly;
// (3) model correspondence: for integer arrays fed as arbitrary data-event splits the text the
//     real encoder writes is the text the Lean model (array engine + element formats) predicts.

import (
	"fmt"
	"strings"

	"github.com/kstenerud/go-concise-encoding/ce/events"
	"github.com/kstenerud/go-concise-encoding/configuration"
)

func init() {
	runners["C23"] = runC23
}

func elemBitsOf(t events.ArrayType) int {
	switch t {
	case events.ArrayTypeBit:
		return 1
	case events.ArrayTypeUint16, events.ArrayTypeInt16, events.ArrayTypeFloat16:
		return 16
	case events.ArrayTypeUint32, events.ArrayTypeInt32, events.ArrayTypeFloat32:
		return 32
	case events.ArrayTypeUint64, events.ArrayTypeInt64, events.ArrayTypeFloat64:
		return 64
	case events.ArrayTypeUID:
		return 128
	}
	return 8
}

func isStringlike(t events.ArrayType) bool {
	switch t {
	case events.ArrayTypeString, events.ArrayTypeResourceID, events.ArrayTypeReferenceRemote, events.ArrayTypeCustomText:
		return true
	}
	return false
}

// splitData: data events at random byte offsets (zero-length events included now and then)
func splitDataRandom(rng *Rng, d []byte) []Event {
	var out []Event
	for len(d) > 0 {
		n := len(d)
		if rng.P(2, 3) {
			n = 1 + rng.Intn(len(d))
		}
		if rng.P(1, 10) {
			out = append(out, Event{K: "ad", D: []byte{}})
		}
		out = append(out, Event{K: "ad", D: d[:n]})
		d = d[n:]
	}
	return out
}

// rechunkArray: begin event + total element count + data -> begin, chunks, data events
func rechunkArray(rng *Rng, begin Event, t events.ArrayType, count int, data []byte) []Event {
	out := []Event{begin}
	bits := elemBitsOf(t)
	// allowed chunk boundaries, in elements
	var cuts []int
	switch {
	case bits == 1:
		for i := 0; i <= count; i += 8 {
			cuts = append(cuts, i)
		}
	case isStringlike(t) || begin.K == "mb" && false:
		for _, b := range runeStarts(data) {
			cuts = append(cuts, b)
		}
	default:
		for i := 0; i <= count; i++ {
			cuts = append(cuts, i)
		}
	}
	bounds := []int{0}
	n := rng.Intn(4)
	for i := 0; i < n && len(cuts) > 0; i++ {
		bounds = append(bounds, cuts[rng.Intn(len(cuts))])
	}
	bounds = append(bounds, count)
	sortInts(bounds)
	byteOf := func(el int) int {
		if bits == 1 {
			return (el + 7) / 8
		}
		return el * bits / 8
	}
	for i := 0; i+1 < len(bounds); i++ {
		lo, hi := bounds[i], bounds[i+1]
		more := i+2 < len(bounds)
		out = append(out, Event{K: "ac", N: uint64(hi - lo), B: more})
		blo, bhi := byteOf(lo), byteOf(hi)
		if bhi > len(data) {
			bhi = len(data)
		}
		out = append(out, splitDataRandom(rng, data[blo:bhi])...)
	}
	return out
}

// rechunk: the same data with every array chunked and split differently
func rechunk(rng *Rng, evs []Event) []Event {
	var out []Event
	for i := 0; i < len(evs); i++ {
		e := evs[i]
		switch e.K {
		case "a":
			count := int(e.N)
			out = append(out, rechunkArray(rng, Event{K: "ab", AT: e.AT}, e.AT, count, e.D)...)
		case "s":
			out = append(out, rechunkArray(rng, Event{K: "ab", AT: e.AT}, e.AT, len(e.D), e.D)...)
		case "md":
			out = append(out, rechunkArray(rng, Event{K: "mb", D2: e.D2}, events.ArrayTypeMedia, len(e.D), e.D)...)
		case "cb":
			out = append(out, rechunkArray(rng, Event{K: "cbg", AT: events.ArrayTypeCustomBinary, N: e.N}, events.ArrayTypeCustomBinary, len(e.D), e.D)...)
		case "ct":
			out = append(out, rechunkArray(rng, Event{K: "cbg", AT: events.ArrayTypeCustomText, N: e.N}, events.ArrayTypeCustomText, len(e.D), e.D)...)
		case "ab", "mb", "cbg":
			// collect the chunks of an already chunked array
			t := e.AT
			if e.K == "mb" {
				t = events.ArrayTypeMedia
			}
			count := 0
			var data []byte
			j := i + 1
			last := false
			for j < len(evs) && !last {
				switch evs[j].K {
				case "ac":
					count += int(evs[j].N)
					if !evs[j].B {
						last = true
						// the data events of the final chunk
						k := j + 1
						for k < len(evs) && evs[k].K == "ad" {
							data = append(data, evs[k].D...)
							k++
						}
						j = k - 1
					}
				case "ad":
					data = append(data, evs[j].D...)
				}
				j++
			}
			if elemBitsOf(t) == 1 {
				// bit arrays: every chunk is byte-padded on its own; only re-split the data events
				out = append(out, e)
				for k := i + 1; k < j; k++ {
					if evs[k].K == "ad" {
						out = append(out, splitDataRandom(rng, evs[k].D)...)
					} else {
						out = append(out, evs[k])
					}
				}
			} else {
				out = append(out, rechunkArray(rng, e, t, count, data)...)
			}
			i = j - 1
		default:
			out = append(out, e)
		}
	}
	return out
}

func hexList(evs []Event) string {
	var parts []string
	for _, e := range evs {
		if e.K == "ad" {
			if len(e.D) == 0 {
				parts = append(parts, "-")
			} else {
				parts = append(parts, hx(e.D))
			}
		}
	}
	return strings.Join(parts, ",")
}

func runC23(r *Run) {
	cfg := configuration.New()
	r.each(func(idx int, rng *Rng) {
		if idx%3 == 2 {
			// (3) model correspondence on one integer array under a random format
			k := arrKinds[rng.Intn(8)]
			f := arrFormats[rng.Intn(len(arrFormats))]
			c := configuration.New()
			k.set(c, f.f)
			n := rng.Intn(12)
			elems := make([]uint64, n)
			for i := range elems {
				elems[i] = arrElemPool(k, rng)
			}
			data := packElems(k.bits, elems)
			evs := append([]Event{{K: "bd"}, {K: "v"}}, rechunkArray(rng, Event{K: "ab", AT: k.at}, k.at, n, data)...)
			evs = append(evs, Event{K: "ed"})
			doc, err := cteEncode(evs, c)
			r.out.Case("engine "+EventsText(evs), n > 0)
			r.out.Count("engine:" + k.name)
			if err != nil {
				r.out.Finding("C23", "encode-error:chunked-array", fmt.Sprintf("the CTE encoder fails on a chunked %s array: %v", k.name, err), EventsText(evs))
				return
			}
			r.out.Line("corr", fmt.Sprintf("%d", idx), "CTE.ENGINE", []string{k.name, f.name, hexList(evs)}, strings.TrimPrefix(string(doc), "c0\n"))
			return
		}
		gc := cteGenCfg()
		gc.NoMidCharSplit = false
		g := NewGen(rng, gc)
		evs := g.Doc()
		if v, _ := runRules(evs, cfg); v != "ACC" {
			return
		}
		t1, err1 := cteEncode(evs, cfg)
		if err1 != nil {
			return
		}
		text := EventsText(evs)
		r.out.Case(text, len(evs) > 4)
		narr := 0
		for _, e := range evs {
			switch e.K {
			case "a", "s", "ab", "mb", "cbg", "md", "cb", "ct":
				narr++
			}
		}
		r.out.Add("arrays", narr)
		for rep := 0; rep < 2; rep++ {
			re := rechunk(rng, evs)
			if v, _ := runRules(re, cfg); v != "ACC" {
				r.out.Count("rechunked-rejected-by-rules")
				continue
			}
			t2, err2 := cteEncode(re, cfg)
			r.out.Count("rechunkings")
			if err2 != nil {
				r.out.Finding("C23", "encode-error:rechunked", fmt.Sprintf("the CTE encoder fails on a re-chunked stream: %v", err2), EventsText(re))
				continue
			}
			if string(t1) != string(t2) {
				r.out.Finding("C23", "text-differs:rechunked", "the CTE text changes when array data is chunked / split differently",
					fmt.Sprintf("%s ==> %q  VS  %s ==> %q", trunc(text, 600), trunc(string(t1), 300), trunc(EventsText(re), 600), trunc(string(t2), 300)))
			}
		}
		// (2) decode then encode again
		back, derr := cteDecode(t1, cfg, true)
		if derr != nil {
			r.out.Count("encoder-text-undecodable")
			return
		}
		t3, err3 := cteEncode(back, cfg)
		r.out.Count("reencodings")
		if err3 != nil || string(t3) != string(t1) {
			r.out.Finding("C23", "text-differs:reencoded", fmt.Sprintf("decoding encoder-produced CTE and encoding it again does not reproduce the text (%v)", err3),
				fmt.Sprintf("%q  VS  %q  events %s", trunc(string(t1), 400), trunc(string(t3), 400), trunc(text, 400)))
		}
		if idx%150 == 0 {
			r.out.Sample(trunc(text, 300) + " ==> " + trunc(strings.ReplaceAll(string(t1), "\n", "\\n"), 300))
		}
	})
}
