package main

// splitmix64: every random choice of the harness derives from one state, so a case
// replays exactly from (VERIF_SEED, case index).
type Rng struct{ s uint64 }

func NewRng(seed uint64, idx uint64) *Rng {
	r := &Rng{s: seed*0x9E3779B97F4A7C15 + idx*0xBF58476D1CE4E5B9 + 0x94D049BB133111EB}
	r.Next()
	return r
}

func (r *Rng) Next() uint64 {
	r.s += 0x9E3779B97F4A7C15
	z := r.s
	z = (z ^ (z >> 30)) * 0xBF58476D1CE4E5B9
	z = (z ^ (z >> 27)) * 0x94D049BB133111EB
	return z ^ (z >> 31)
}

func (r *Rng) Intn(n int) int {
	if n <= 0 {
		return 0
	}
	return int(r.Next() % uint64(n))
}

// P returns true with probability num/den.
func (r *Rng) P(num, den int) bool { return r.Intn(den) < num }

func (r *Rng) Bytes(n int) []byte {
	b := make([]byte, n)
	for i := range b {
		b[i] = byte(r.Next())
	}
	return b
}

// Geometric-ish small count: 0,1,2,... with tail.
func (r *Rng) Small(max int) int {
	n := 0
	for n < max && r.P(3, 5) {
		n++
	}
	return n
}
