#!/usr/bin/env python3
"""Fact extractor / translator: regenerates /verif/lean/CE/Gen/*.lean from /repo's working tree.

 - Gen/RuleTable.lean: every EventRule method body of package rules, translated statement by
   statement into the action DSL of CE/Rules/Types.lean (unrecognised statement => Act.unknown).
 - Gen/DataTypes.lean: DataType bit order and Allow* masks (rules/generated-do-not-edit.go),
   arrayTypeToDataType.
 - Gen/CbeCodes.lean: cbeType* constants and array tables of package cbe.
 - Gen/Receiver.lean: per RulesEventReceiver.On* method, the forwarded call.
Generated files are deleted first; a failure leaves no stale facts behind.
"""
import json, os, re, subprocess, sys, glob

VERIF = os.path.dirname(os.path.dirname(os.path.abspath(__file__)))
REPO = os.environ.get("VERIF_REPO", "/repo")
GEN = os.path.join(VERIF, "lean", "CE", "Gen")
WORK = os.path.join(VERIF, ".work")
ENV = dict(os.environ, GOFLAGS="-mod=mod", GOPROXY="off", GOSUMDB="off", GOTOOLCHAIN="local")

RULES = {
    "BeginDocumentRule": "beginDocument", "EndDocumentRule": "endDocument", "TerminalRule": "terminal",
    "VersionRule": "version", "TopLevelRule": "topLevel", "ListRule": "list", "MapKeyRule": "mapKey",
    "MapValueRule": "mapValue", "RecordTypeRule": "recordType", "RecordRule": "record", "ArrayRule": "array",
    "ArrayChunkRule": "arrayChunk", "StringRule": "string", "StringChunkRule": "stringChunk",
    "MarkedObjectKeyableRule": "markedObjectKeyable", "MarkedObjectAnyTypeRule": "markedObjectAnyType",
    "StringBuilderRule": "stringBuilder", "StringBuilderChunkRule": "stringBuilderChunk",
    "EdgeSourceRule": "edgeSource", "EdgeDescriptionRule": "edgeDescription",
    "EdgeDestinationRule": "edgeDestination", "NodeRule": "node", "AwaitEndRule": "awaitEnd",
}
RULE_VARS = {v[0].lower() + v[1:]: RULES[v] for v in RULES}  # &listRule -> list
METHODS = ["OnBeginDocument", "OnEndDocument", "OnChildContainerEnded", "OnVersion", "OnPadding", "OnComment",
           "OnKeyableObject", "OnNonKeyableObject", "OnNull", "OnList", "OnMap", "OnRecordType", "OnRecord",
           "OnEdge", "OnNode", "OnEnd", "OnMarker", "OnReferenceLocal", "OnArray", "OnStringlikeArray",
           "OnArrayBegin", "OnArrayChunk", "OnArrayData"]
MASKS = {"AllowAny": "any", "AllowNonNull": "nonNull", "AllowKeyable": "keyable", "AllowMarkable": "markable",
         "AllowString": "string", "AllowResourceID": "resourceID"}


def lname(m):
    return m[0].lower() + m[1:]


def lean_str(s):
    return '"' + s.replace("\\", "\\\\").replace('"', '\\"') + '"'


FIXED = {
    "ctx.BeginList()": ".beginList", "ctx.BeginMap()": ".beginMap", "ctx.BeginEdge()": ".beginEdge",
    "ctx.BeginNode()": ".beginNode", "ctx.BeginRecord(identifier)": ".beginRecord",
    "ctx.BeginRecordType(identifier)": ".beginRecordType",
    "ctx.EndContainer(true)": ".endContainer true", "ctx.EndContainer(false)": ".endContainer false",
    "ctx.EndDocument()": ".endDocument",
    'if version != ctx.ExpectedVersion { panic(fmt.Errorf("expected version %v but got version %v", ctx.ExpectedVersion, version)) }': ".checkVersion",
    "ctx.NotifyKey(key)": ".notifyKey",
    "switch arrayType { case events.ArrayTypeString: ctx.NotifyKey(string(data)) case events.ArrayTypeResourceID: ctx.NotifyKey(rid(data)) }": ".notifyKeyOfArray",
    "switch dataType { case DataTypeString: ctx.NotifyKey(ctx.GetBuiltArrayAsString()) case DataTypeResourceID: ctx.NotifyKey(rid(ctx.GetBuiltArrayAsString())) }": ".notifyKeyOfBuilt",
    "ctx.LocalReferenceKeyable(identifier)": ".localRefKeyable", "ctx.LocalReferenceAnyType(identifier)": ".localRefAny",
    "ctx.ValidateFullArrayAnyType(arrayType, elementCount, data)": ".validateFullAny",
    "ctx.ValidateFullArrayStringlike(arrayType, data)": ".validateFullStringlike",
    "ctx.BeginArrayAnyType(arrayType)": ".beginArrayAny",
    "ctx.UnstackRule()": ".unstack",
    "ctx.CurrentEntry.Rule.OnKeyableObject(ctx, objType, key)": ".redispatch .onKeyableObject false",
    'ctx.CurrentEntry.Rule.OnKeyableObject(ctx, objType, "")': ".redispatch .onKeyableObject true",
    "ctx.CurrentEntry.Rule.OnArray(ctx, arrayType, elementCount, data)": ".redispatch .onArray false",
    "ctx.CurrentEntry.Rule.OnStringlikeArray(ctx, arrayType, data)": ".redispatch .onStringlikeArray false",
    "ctx.CurrentEntry.Rule.OnNull(ctx)": ".redispatch .onNull false",
    "ctx.CurrentEntry.Rule.OnChildContainerEnded(ctx, dataType)": ".redispatch .onChildContainerEnded false",
    "ctx.CurrentEntry.Rule.OnChildContainerEnded(ctx, cType)": ".redispatch .onChildContainerEnded false",
    "ctx.ParentRule().OnList(ctx)": ".parentDispatch .onList", "ctx.ParentRule().OnMap(ctx)": ".parentDispatch .onMap",
    "ctx.ParentRule().OnRecord(ctx, identifier)": ".parentDispatch .onRecord",
    "ctx.ParentRule().OnArrayBegin(ctx, arrayType)": ".parentDispatch .onArrayBegin",
    "dataType := arrayTypeToDataType[arrayType]": ".lookupArrayDataType",
    "ctx.MarkObject(objType)": ".markObject .objType", "ctx.MarkObject(dataType)": ".markObject .arrayDataType",
    "ctx.MarkObject(cType)": ".markObject .cType", "ctx.MarkObject(DataTypeNull)": ".markObject .null",
    "switch arrayType { case events.ArrayTypeString, events.ArrayTypeResourceID: ctx.MarkObject(dataType) default: ctx.MarkObject(dataType) }": ".markObject .arrayDataType",
    "switch arrayType { case events.ArrayTypeString: ctx.MarkObject(dataType) default: ctx.MarkObject(dataType) }": ".markObject .arrayDataType",
    "ctx.markerID = ctx.CurrentEntry.MarkerID": ".restoreMarkerID",
    "if length == 0 { ctx.tryEndArray(moreChunksFollow, nil) return }": ".zeroChunkReturn",
    "ctx.BeginChunkAnyType(length, moreChunksFollow)": ".beginChunk .any",
    "ctx.BeginChunkString(length, moreChunksFollow)": ".beginChunk .string",
    "ctx.BeginChunkStringBuilder(length, moreChunksFollow)": ".beginChunk .stringBuilder",
    "ctx.MarkCompletedChunkByteCount(uint64(len(data)))": ".markCompletedChunk",
    "if ctx.chunkActualByteCount == ctx.chunkExpectedByteCount { ctx.EndChunkAnyType() }": ".endChunkIfComplete .any",
    "if ctx.chunkActualByteCount == ctx.chunkExpectedByteCount { ctx.EndChunkString() }": ".endChunkIfComplete .string",
    "firstRuneBytes, nextRunesBytes := ctx.StreamStringData(data)": ".streamStringData",
    "ctx.ValidateArrayDataFunc(firstRuneBytes)": ".validateFirst", "ctx.ValidateArrayDataFunc(nextRunesBytes)": ".validateNext",
    "ctx.AddBuiltArrayBytes(firstRuneBytes)": ".addFirst", "ctx.AddBuiltArrayBytes(nextRunesBytes)": ".addNext",
    "ctx.AddBuiltArrayBytes(data)": ".addBuiltData",
}


def translate_stmt(s, helpers, rule, method=None, params=None):
    if method == "OnChildContainerEnded" and params and len(params) >= 2:
        ct = params[1]
        if s == f"ctx.MarkObject({ct})":
            return [".markObject .cType"]
        if s == f"ctx.CurrentEntry.Rule.OnChildContainerEnded(ctx, {ct})":
            return [".redispatch .onChildContainerEnded false"]
    if s in FIXED:
        return [FIXED[s]]
    if s.startswith("wrongType("):
        return [".wrongType"]
    m = re.fullmatch(r"_this\.(\w+)\(ctx\)", s)
    if m and (rule, m.group(1)) in helpers:
        out = []
        for h in helpers[(rule, m.group(1))]:
            out += translate_stmt(h, helpers, rule)
        return out
    m = re.fullmatch(r"ctx\.ChangeRule\(&(\w+)\)", s)
    if m and m.group(1) in RULE_VARS:
        return [f".changeRule .{RULE_VARS[m.group(1)]}"]
    m = re.fullmatch(r"ctx\.BeginMarkerKeyable\(identifier, (\w+)\)", s)
    if m and m.group(1) in MASKS:
        return [f".beginMarkerKeyable .{MASKS[m.group(1)]}"]
    m = re.fullmatch(r"ctx\.BeginMarkerAnyType\(identifier, (\w+)\)", s)
    if m and m.group(1) in MASKS:
        return [f".beginMarkerAny .{MASKS[m.group(1)]}"]
    m = re.fullmatch(r'ctx\.AssertArrayType\("[^"]*", arrayType, (\w+)\)', s)
    if m and m.group(1) in MASKS:
        return [f".assertArrayType .{MASKS[m.group(1)]}"]
    if re.fullmatch(r'ctx\.ValidateFullArrayKeyable\("[^"]*", arrayType, elementCount, data\)', s):
        return [".validateFullKeyable"]
    if re.fullmatch(r'ctx\.ValidateFullArrayStringlikeKeyable\("[^"]*", arrayType, data\)', s):
        return [".validateFullStringlikeKeyable"]
    if re.fullmatch(r'ctx\.BeginArrayKeyable\("[^"]*", arrayType\)', s):
        return [".beginArrayKeyable"]
    return [f".unknown {lean_str(s)}"]


def build_extractor():
    os.makedirs(WORK, exist_ok=True)
    exe = os.path.join(WORK, "extract")
    r = subprocess.run(["go", "build", "-o", exe, "."], cwd=os.path.join(VERIF, "extract"), env=ENV,
                       stdout=subprocess.PIPE, stderr=subprocess.STDOUT, text=True)
    if r.returncode != 0:
        print(r.stdout)
        sys.exit(1)
    return exe


def gen_rule_table(exe):
    out = subprocess.run([exe, "rules", REPO], stdout=subprocess.PIPE, text=True, check=True).stdout
    rows = [json.loads(l) for l in out.splitlines() if l.strip()]
    helpers = {}
    table = {}
    for r in rows:
        if r["rule"] not in RULES:
            continue
        if r["method"] in METHODS:
            table[(r["rule"], r["method"])] = (r["stmts"] or [], r.get("params") or [])
        elif r["method"] != "String":
            helpers[(r["rule"], r["method"])] = r["stmts"] or []
    lines = ["import CE.Rules.Types", "/- GENERATED by extract/extract.py from /repo/rules/*.go — do not edit -/",
             "namespace CE.Gen", "open CE.Rules", ""]
    missing = []
    unknown = 0
    for gr, lr in RULES.items():
        lines.append(f"def rule_{lr} : Method → List Act")
        for m in METHODS:
            if (gr, m) not in table:
                missing.append((gr, m))
                acts = ['.unknown "missing method"']
            else:
                acts = []
                stmts, params = table[(gr, m)]
                for s in stmts:
                    acts += translate_stmt(s, helpers, gr, m, params)
            unknown += sum(1 for a in acts if a.startswith(".unknown"))
            lines.append(f"  | .{lname(m)} => [{', '.join(acts)}]")
        lines.append("")
    lines.append("def ruleTable : RuleTable")
    for gr, lr in RULES.items():
        lines.append(f"  | .{lr} => rule_{lr}")
    lines += ["", "end CE.Gen", ""]
    open(os.path.join(GEN, "RuleTable.lean"), "w").write("\n".join(lines))
    print(f"RuleTable: {len(table)} methods, {unknown} unknown statements, {len(missing)} missing")


def gen_chars(exe):
    lines = ["/- GENERATED by extract/extract.py from /repo/internal/chars/generated-do-not-edit.go — do not edit -/",
             "namespace CE.Gen", ""]
    for name in ["identifierSafe", "stringlikeSafe"]:
        out = subprocess.run([exe, "bitranges", REPO, "internal/chars", name], stdout=subprocess.PIPE, text=True, check=True).stdout
        d = json.loads(out)
        lines.append(f"def {name}Ranges : List (Nat × Nat) := [")
        rs = d["ranges"]
        for i in range(0, len(rs), 8):
            lines.append("  " + ", ".join(f"({a}, {b})" for a, b in rs[i:i + 8]) + ("," if i + 8 < len(rs) else ""))
        lines.append("]")
        lines.append("")
    lines += ["end CE.Gen", ""]
    open(os.path.join(GEN, "Chars.lean"), "w").write("\n".join(lines))
    print("Chars: ranges extracted")


def run_json(exe, *args):
    out = subprocess.run([exe, *args], stdout=subprocess.PIPE, text=True, check=True).stdout
    return json.loads(out)


def gen_api(exe):
    """entry-point dispatch and version facts (C27)"""
    sig = re.search(r"const CBESignatureByte = byte\((0x[0-9a-fA-F]+)\)", open(os.path.join(REPO, "cbe", "common.go")).read())
    sigv = int(sig.group(1), 16) if sig else -1

    def label(l):
        m = re.fullmatch(r"'(.)'", l)
        if m:
            return ord(m.group(1))
        if l == "cbe.CBESignatureByte":
            return sigv
        return -1

    def cases(fn):
        rows = []
        for c in run_json(exe, "switchcases", REPO, "ce", fn):
            body = " ".join(c["body"] or [])
            tgt = "cte" if "cte.New" in body else ("cbe" if "cbe.New" in body else "err")
            for l in (c["labels"] or []):
                rows.append((label(l), tgt))
        return rows

    def vmap(dirname, fn):
        stmts = run_json(exe, "funcstmts", REPO, dirname, fn)
        pairs = []
        forwarded = False
        for st in stmts:
            m = re.fullmatch(r"if ver == (\d+) \{ ver = (\d+) \}", st)
            if m:
                pairs.append((int(m.group(1)), int(m.group(2))))
            if re.search(r"OnVersion\(ver\)", st):
                forwarded = True
        return pairs, forwarded

    libv = re.search(r"const ConciseEncodingVersion = (\d+)", open(os.path.join(REPO, "version", "version.go")).read())
    lex = re.search(r"CTE_VERSION: \[(\d+)\];", open(os.path.join(REPO, "codegen", "cte", "CTELexer.g4")).read())
    it = "OnVersion(version.ConciseEncodingVersion)" in open(os.path.join(REPO, "iterator", "iterator_root.go")).read()
    cbe_map, cbe_fwd = vmap("cbe", "Decode")
    cte_map, cte_fwd = vmap("cte", "ExitVersion")
    fmtl = lambda rows: "[" + ", ".join(f'({a}, "{b}")' for a, b in rows) + "]"
    fmtp = lambda rows: "[" + ", ".join(f"({a}, {b})" for a, b in rows) + "]"
    lines = ["/- GENERATED by extract/extract.py from ce/decoder.go, ce/unmarshaler.go, cbe/decoder.go, cte/parser.go,",
             "   version/version.go, codegen/cte/CTELexer.g4, iterator/iterator_root.go — do not edit -/",
             "namespace CE.Gen", "",
             f"def decoderCases : List (Nat × String) := {fmtl(cases('chooseDecoder'))}",
             f"def unmarshalerCases : List (Nat × String) := {fmtl(cases('chooseUnmarshaler'))}",
             f"def libVersion : Nat := {libv.group(1) if libv else 999}",
             f"def cbeVersionMap : List (Nat × Nat) := {fmtp(cbe_map)}",
             f"def cbeForwardsMapped : Bool := {'true' if cbe_fwd else 'false'}",
             f"def cteVersionMap : List (Nat × Nat) := {fmtp(cte_map)}",
             f"def cteForwardsMapped : Bool := {'true' if cte_fwd else 'false'}",
             f"def cteLexerVersions : List Nat := [{', '.join(lex.group(1)) if lex else ''}]",
             f"def marshalersEmitLibVersion : Bool := {'true' if it else 'false'}",
             "", "end CE.Gen", ""]
    open(os.path.join(GEN, "Api.lean"), "w").write("\n".join(lines))
    print("Api: dispatch and version facts extracted")


RESET_POINTS = [("cbe", "Reader", "SetReader"), ("cbe", "Encoder", "PrepareToEncode"),
                ("rules", "Context", "Reset"), ("cte", "EncoderContext", "Begin")]


def gen_session(exe):
    """type-cache protocol shape and per-document reset points (C16, C17, C07)"""
    def sl(xs):
        return "[" + ", ".join(lean_str(x) for x in xs) + "]"
    it = run_json(exe, "cacheproto", REPO, "iterator", "GetIteratorForType")
    bu = run_json(exe, "cacheproto", REPO, "builder", "GetBuilderGeneratorForType")
    lines = ["/- GENERATED by extract/extract.py from iterator/session.go, builder/session.go, cbe/decoder_reader.go,",
             "   cbe/encoder.go, rules/context.go, cte/encoder_context.go — do not edit -/",
             "namespace CE.Gen", "",
             f"def iteratorCacheProtocol : List String := {sl(it)}",
             f"def builderCacheProtocol : List String := {sl(bu)}", "",
             "/-- (reset point, fields of the struct, fields the reset point assigns) -/",
             "def resetFacts : List (String × List String × List String) := ["]
    rows = []
    for d, t, f in RESET_POINTS:
        r = run_json(exe, "resetfacts", REPO, d, t, f)
        rows.append(f"  ({lean_str(d + '.' + t + '.' + f)}, {sl(r['fields'] or [])}, {sl(r['assigned'] or [])})")
    lines.append(",\n".join(rows) + "]")
    lines += ["", "end CE.Gen", ""]
    open(os.path.join(GEN, "Session.lean"), "w").write("\n".join(lines))
    chk = ["import CE.Gen.Session", "import CE.Cache.Expect",
           "/- GENERATED obligations: the cache protocol and the reset points of /repo, as extracted just now,",
           "   are the ones the model (CE/Cache/Model.lean) and the C16/C17 theorems are about. -/",
           "namespace CE.GenCheckSession", "",
           "theorem iterator_cache_protocol_eq : CE.Gen.iteratorCacheProtocol = CE.Cache.Expect.cacheProtocol := by decide",
           "theorem builder_cache_protocol_eq : CE.Gen.builderCacheProtocol = CE.Cache.Expect.cacheProtocol := by decide",
           "theorem reset_points_fields_eq : CE.Gen.resetFacts.map (fun r => (r.1, r.2.1)) = CE.Cache.Expect.resetFields := by decide",
           "theorem reset_points_cover : ∀ r ∈ CE.Gen.resetFacts, ∀ f ∈ CE.Cache.Expect.mustReset r.1, f ∈ r.2.2 := by decide",
           "", "end CE.GenCheckSession", ""]
    open(os.path.join(GEN, "CheckSession.lean"), "w").write("\n".join(chk))
    print("Session: cache protocol and reset facts extracted")


def gen_cte_formats():
    """array format / header tables of the CTE encoder (C25)"""
    src = open(os.path.join(REPO, "cte", "encoder_array.go")).read()
    conf = open(os.path.join(REPO, "configuration", "encoder.go")).read()
    # numeric values of the CTEEncodingFormat* constants (iota block)
    m = re.search(r"const \(\s*CTEEncodingFormatDecimal(.*?)\n\)", conf, re.S)
    codes = {}
    if m:
        idx = 0
        expr = None
        for line in ("CTEEncodingFormatDecimal" + m.group(1)).splitlines():
            line = line.strip()
            if not line or line.startswith("//"):
                continue
            mm = re.match(r"(\w+)(?:\s+\w+\s*=\s*(.*))?$", line)
            if not mm:
                continue
            if mm.group(2) is not None:
                expr = mm.group(2)
            val = eval(expr.replace("iota", str(idx))) if expr is not None else idx
            codes[mm.group(1)] = val
            idx += 1
    def table(name):
        mt = re.search(r"var " + name + r" = \[\]string\{(.*?)\n\}", src, re.S)
        rows = []
        if mt:
            for mm in re.finditer(r"configuration\.(\w+):\s*\"([^\"]*)\"", mt.group(1)):
                rows.append((codes.get(mm.group(1), 999), mm.group(2)))
        return rows
    fmtl = lambda rows: "[" + ", ".join(f"({a}, {lean_str(b)})" for a, b in rows) + "]"
    lines = ["/- GENERATED by extract/extract.py from cte/encoder_array.go and configuration/encoder.go — do not edit -/",
             "namespace CE.Gen", ""]
    for bits, name in [(8, "arrayFormats8"), (16, "arrayFormats16"), (32, "arrayFormats32"), (64, "arrayFormats64")]:
        lines.append(f"def cteArrayFormats{bits} : List (Nat × String) := {fmtl(table(name))}")
    lines.append(f"def cteArrayFormatsGeneral : List (Nat × String) := {fmtl(table('arrayFormatsGeneral'))}")
    for k, name in [("u8", "Uint8"), ("u16", "Uint16"), ("u32", "Uint32"), ("u64", "Uint64"), ("i8", "Int8"), ("i16", "Int16"),
                    ("i32", "Int32"), ("i64", "Int64"), ("f16", "Float16"), ("f32", "Float32"), ("f64", "Float64")]:
        lines.append(f"def cteArrayHeaders_{k} : List (Nat × String) := {fmtl(table('arrayHeaders' + name))}")
    # which settings of the float kinds take the hex-float writer
    hexcond = {}
    for k in ["16", "32", "64"]:
        mm = re.search(r"Array\.Float" + k + r" (==|!=) configuration\.(\w+) \{", src)
        hexcond[k] = (mm.group(1), codes.get(mm.group(2), 999)) if mm else ("?", 999)
    lines.append("/-- (operator, constant) of the test that routes a float array to the hex-float element writer -/")
    lines.append("def cteFloatHexCond : List (String × String × Nat) := [" + ", ".join(f'("f{k}", "{op}", {c})' for k, (op, c) in hexcond.items()) + "]")
    lines += ["", "end CE.Gen", ""]
    open(os.path.join(GEN, "CteFormats.lean"), "w").write("\n".join(lines))
    chk = ["import CE.Gen.CteFormats", "import CE.Cte.ArrFmt",
           "/- GENERATED obligations: the format and header tables of the CTE array encoder, as extracted from /repo",
           "   just now, are the ones the model CE/Cte/ArrFmt.lean (and the C25 theorems) describe. -/",
           "namespace CE.GenCheckCte", "open CE.Cte.ArrFmt", "",
           "def lookup (t : List (Nat × String)) (c : Nat) : Option String := (t.find? (·.1 == c)).map (·.2)", "",
           "theorem formats8_eq : ∀ f ∈ Fmt.all, lookup CE.Gen.cteArrayFormats8 f.code = some (verbText 8 f) := by decide",
           "theorem formats16_eq : ∀ f ∈ Fmt.all, lookup CE.Gen.cteArrayFormats16 f.code = some (verbText 16 f) := by decide",
           "theorem formats32_eq : ∀ f ∈ Fmt.all, lookup CE.Gen.cteArrayFormats32 f.code = some (verbText 32 f) := by decide",
           "theorem formats64_eq : ∀ f ∈ Fmt.all, lookup CE.Gen.cteArrayFormats64 f.code = some (verbText 64 f) := by decide",
           "theorem formatsGeneral_dec : lookup CE.Gen.cteArrayFormatsGeneral Fmt.dec.code = some \"%v\" := by decide"]
    for k in ["u8", "u16", "u32", "u64", "i8", "i16", "i32", "i64", "f16", "f32", "f64"]:
        chk.append(f"theorem headers_{k}_eq : ∀ f ∈ Fmt.all, lookup CE.Gen.cteArrayHeaders_{k} f.code = some (header .{k} f) := by decide")
    chk.append('theorem float_hex_routing : CE.Gen.cteFloatHexCond = [("f16", "!=", 0), ("f32", "!=", 0), ("f64", "!=", 0)] := by decide')
    chk += ["", "end CE.GenCheckCte", ""]
    open(os.path.join(GEN, "CheckCte.lean"), "w").write("\n".join(chk))
    print("CteFormats: array format and header tables extracted")


def gen_entrypoints(exe):
    """public entry points of ce, cbe, cte and their panic containment (C07, C29)"""
    eps = run_json(exe, "entrypoints", REPO, "ce", "cbe", "cte")
    def sl(xs):
        return "[" + ", ".join(lean_str(x) for x in xs) + "]"
    lines = ["import CE.Api.EntryPoints",
             "/- GENERATED by extract/extract.py from ce/*.go, cbe/*.go, cte/*.go — do not edit -/",
             "namespace CE.Gen", "open CE.Api", "",
             "def entryPoints : List EP := ["]
    rows = []
    for e in eps:
        nm = e["pkg"] + "." + (e["recv"] + "." if e["recv"] else "") + e["name"]
        rows.append(f"  {{ name := {lean_str(nm)}, short := {lean_str(e['name'])}, hasRecover := {'true' if e['hasRecover'] else 'false'}, "
                    f"unguardedIndex := {'true' if e['unguardedIndex'] else 'false'}, callees := {sl(e['callees'] or [])}, "
                    f"entry := {'true' if e['name'].startswith(('Marshal', 'Unmarshal', 'Decode')) else 'false'} }}")
    lines.append(",\n".join(rows) + "]")
    lines += ["", "end CE.Gen", ""]
    open(os.path.join(GEN, "EntryPoints.lean"), "w").write("\n".join(lines))
    chk = ["import CE.Gen.EntryPoints",
           "/- GENERATED obligation: every public marshal / unmarshal / decode entry point of /repo, as extracted just",
           "   now, contains panics: it installs a deferred recover, or it only calls contained entry points and",
           "   helpers known not to panic, without indexing a parameter it has not checked. -/",
           "namespace CE.GenCheckEntry", "open CE.Api", "",
           "theorem entry_points_contain_panics : ∀ e ∈ CE.Gen.entryPoints, isEntry e = true → contained CE.Gen.entryPoints 4 e = true := by decide",
           "theorem entry_points_present : requiredEntries.all (fun n => CE.Gen.entryPoints.any (fun e => e.name == n && e.entry)) = true := by decide",
           "", "end CE.GenCheckEntry", ""]
    open(os.path.join(GEN, "CheckEntry.lean"), "w").write("\n".join(chk))
    print(f"EntryPoints: {len(eps)} exported error-returning functions extracted")


def snapshot():
    src = open(os.path.join(GEN, "Chars.lean")).read()
    src = src.replace("namespace CE.Gen", "namespace CE.Chars.Model").replace("end CE.Gen", "end CE.Chars.Model")
    src = src.replace("/- GENERATED by", "/- Snapshot (model side; GenCheck equates it with the regenerated copy) of the tables GENERATED by")
    os.makedirs(os.path.join(VERIF, "lean", "CE", "Chars"), exist_ok=True)
    open(os.path.join(VERIF, "lean", "CE", "Chars", "Tables.lean"), "w").write(src)
    """copy the generated tables into the hand-maintained model files (development-time only)"""
    src = open(os.path.join(GEN, "RuleTable.lean")).read()
    src = src.replace("/- GENERATED by extract/extract.py from /repo/rules/*.go — do not edit -/",
                      "/- The rule table AS THE MODEL AND THE PROOFS USE IT (snapshot of the translator's output, reviewed and\n   committed).  CE/GenCheck.lean proves it equal, rule by rule, to the table regenerated from /repo on every run. -/")
    src = src.replace("namespace CE.Gen", "namespace CE.Rules.Model").replace("end CE.Gen", "end CE.Rules.Model")
    open(os.path.join(VERIF, "lean", "CE", "Rules", "Table.lean"), "w").write(src)


def gen_check():
    lines = ["import CE.Gen.RuleTable", "import CE.Rules.Table", "import CE.Gen.Chars", "import CE.Chars.Tables",
             "/- GENERATED list of obligations: the model's tables equal the tables extracted from /repo just now. -/",
             "namespace CE.GenCheck", "open CE.Rules", ""]
    for gr, lr in RULES.items():
        lines.append(f"theorem rule_{lr}_eq : ∀ m ∈ Method.all, CE.Gen.rule_{lr} m = CE.Rules.Model.rule_{lr} m := by decide")
    lines.append("theorem identifierSafe_eq : CE.Gen.identifierSafeRanges = CE.Chars.Model.identifierSafeRanges := by decide +kernel")
    lines.append("theorem stringlikeSafe_eq : CE.Gen.stringlikeSafeRanges = CE.Chars.Model.stringlikeSafeRanges := by decide +kernel")
    lines += ["", "end CE.GenCheck", ""]
    open(os.path.join(GEN, "Check.lean"), "w").write("\n".join(lines))


def main():
    os.makedirs(GEN, exist_ok=True)
    for f in glob.glob(os.path.join(GEN, "*.lean")):
        os.remove(f)
    exe = build_extractor()
    gen_rule_table(exe)
    gen_chars(exe)
    gen_api(exe)
    gen_session(exe)
    gen_cte_formats()
    gen_entrypoints(exe)
    gen_check()
    if "--snapshot" in sys.argv:
        snapshot()


if __name__ == "__main__":
    main()
