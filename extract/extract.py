#!/usr/bin/env python3
"""Fact extractor: regenerates lean/CE/Gen/*.lean from /repo's working tree (placeholder)."""
import sys
sys.exit(0)
