// Fact extractor: re-reads /repo's source with go/ast and prints facts as JSON lines.
// Sub-commands: rules (the EventRule method table).
package main

import (
	"bytes"
	"encoding/json"
	"fmt"
	"go/ast"
	"go/parser"
	"go/printer"
	"go/token"
	"os"
	"path/filepath"
	"sort"
	"strings"
)

func src(fset *token.FileSet, n ast.Node) string {
	var b bytes.Buffer
	printer.Fprint(&b, fset, n)
	return strings.Join(strings.Fields(b.String()), " ")
}

func parseDir(dir string) (*token.FileSet, []*ast.File) {
	fset := token.NewFileSet()
	matches, _ := filepath.Glob(filepath.Join(dir, "*.go"))
	sort.Strings(matches)
	var files []*ast.File
	for _, m := range matches {
		if strings.HasSuffix(m, "_test.go") {
			continue
		}
		f, err := parser.ParseFile(fset, m, nil, 0)
		if err != nil {
			fmt.Fprintln(os.Stderr, "parse error:", err)
			os.Exit(1)
		}
		// skip files guarded by the verif tag (our own hooks)
		files = append(files, f)
	}
	return fset, files
}

type ruleMethod struct {
	Rule   string   `json:"rule"`
	Method string   `json:"method"`
	Params []string `json:"params"`
	Stmts  []string `json:"stmts"`
}

func cmdRules(repo string) {
	fset, files := parseDir(filepath.Join(repo, "rules"))
	var out []ruleMethod
	for _, f := range files {
		for _, d := range f.Decls {
			fd, ok := d.(*ast.FuncDecl)
			if !ok || fd.Recv == nil || len(fd.Recv.List) != 1 {
				continue
			}
			star, ok := fd.Recv.List[0].Type.(*ast.StarExpr)
			if !ok {
				continue
			}
			id, ok := star.X.(*ast.Ident)
			if !ok || !strings.HasSuffix(id.Name, "Rule") {
				continue
			}
			rm := ruleMethod{Rule: id.Name, Method: fd.Name.Name}
			for _, p := range fd.Type.Params.List {
				for _, n := range p.Names {
					rm.Params = append(rm.Params, n.Name)
				}
			}
			for _, s := range fd.Body.List {
				rm.Stmts = append(rm.Stmts, src(fset, s))
			}
			out = append(out, rm)
		}
	}
	sort.Slice(out, func(i, j int) bool {
		if out[i].Rule != out[j].Rule {
			return out[i].Rule < out[j].Rule
		}
		return out[i].Method < out[j].Method
	})
	enc := json.NewEncoder(os.Stdout)
	for _, r := range out {
		enc.Encode(r)
	}
}

// byte array literal `var <name> = [...]byte{...}` in package dir -> ranges of set bits
func cmdBitRanges(repo, dir, name string) {
	fset, files := parseDir(filepath.Join(repo, dir))
	_ = fset
	for _, f := range files {
		for _, d := range f.Decls {
			gd, ok := d.(*ast.GenDecl)
			if !ok || gd.Tok != token.VAR {
				continue
			}
			for _, sp := range gd.Specs {
				vs := sp.(*ast.ValueSpec)
				if len(vs.Names) != 1 || vs.Names[0].Name != name || len(vs.Values) != 1 {
					continue
				}
				cl, ok := vs.Values[0].(*ast.CompositeLit)
				if !ok {
					continue
				}
				var ranges [][2]int
				start := -1
				bit := 0
				flush := func(end int) {
					if start >= 0 {
						ranges = append(ranges, [2]int{start, end})
						start = -1
					}
				}
				for _, el := range cl.Elts {
					bl, ok := el.(*ast.BasicLit)
					if !ok {
						fmt.Fprintln(os.Stderr, "non-literal element")
						os.Exit(1)
					}
					var v int
					fmt.Sscanf(bl.Value, "0x%x", &v)
					for i := 0; i < 8; i++ {
						if v&(1<<uint(i)) != 0 {
							if start < 0 {
								start = bit
							}
						} else {
							flush(bit - 1)
						}
						bit++
					}
				}
				flush(bit - 1)
				json.NewEncoder(os.Stdout).Encode(map[string]interface{}{"name": name, "bits": bit, "ranges": ranges})
				return
			}
		}
	}
	fmt.Fprintln(os.Stderr, "not found:", name)
	os.Exit(1)
}

// case labels and bodies of the first switch statement of a function
func cmdSwitchCases(repo, dir, fn string) {
	fset, files := parseDir(filepath.Join(repo, dir))
	for _, f := range files {
		for _, d := range f.Decls {
			fd, ok := d.(*ast.FuncDecl)
			if !ok || fd.Name.Name != fn || fd.Body == nil {
				continue
			}
			type cc struct {
				Labels []string `json:"labels"`
				Body   []string `json:"body"`
			}
			var out []cc
			ast.Inspect(fd.Body, func(n ast.Node) bool {
				sw, ok := n.(*ast.SwitchStmt)
				if !ok || out != nil {
					return true
				}
				for _, st := range sw.Body.List {
					cl := st.(*ast.CaseClause)
					c := cc{}
					for _, e := range cl.List {
						c.Labels = append(c.Labels, src(fset, e))
					}
					for _, b := range cl.Body {
						c.Body = append(c.Body, src(fset, b))
					}
					out = append(out, c)
				}
				return false
			})
			json.NewEncoder(os.Stdout).Encode(out)
			return
		}
	}
	fmt.Fprintln(os.Stderr, "function not found:", fn)
	os.Exit(1)
}

// all statements of a function or method (by name), flattened one level
func cmdFuncStmts(repo, dir, fn string) {
	fset, files := parseDir(filepath.Join(repo, dir))
	var out []string
	for _, f := range files {
		for _, d := range f.Decls {
			fd, ok := d.(*ast.FuncDecl)
			if !ok || fd.Name.Name != fn || fd.Body == nil {
				continue
			}
			for _, s := range fd.Body.List {
				out = append(out, src(fset, s))
			}
		}
	}
	json.NewEncoder(os.Stdout).Encode(out)
}

// cacheproto: the ordered protocol operations of a type-cache function (sync.Map / WaitGroup /
// generate / recover), closures bracketed.  Anything else in the body is ignored, so harmless
// rewrites of unrelated statements do not change the fact.
func cmdCacheProto(repo, dir, fn string) {
	fset, files := parseDir(filepath.Join(repo, dir))
	_ = fset
	var out []string
	for _, f := range files {
		for _, d := range f.Decls {
			fd, ok := d.(*ast.FuncDecl)
			if !ok || fd.Name.Name != fn || fd.Body == nil {
				continue
			}
			var stack []ast.Node
			deferLits := map[*ast.FuncLit]bool{}
			ast.Inspect(fd.Body, func(n ast.Node) bool {
				if n == nil {
					top := stack[len(stack)-1]
					stack = stack[:len(stack)-1]
					if _, ok := top.(*ast.FuncLit); ok {
						out = append(out, "}")
					}
					return true
				}
				stack = append(stack, n)
				switch x := n.(type) {
				case *ast.DeferStmt:
					if fl, ok := x.Call.Fun.(*ast.FuncLit); ok {
						deferLits[fl] = true
					}
				case *ast.FuncLit:
					if deferLits[x] {
						out = append(out, "defer{")
					} else {
						out = append(out, "func{")
					}
				case *ast.AssignStmt:
					for _, l := range x.Lhs {
						if id, ok := l.(*ast.Ident); ok && (id.Name == "iterator" || id.Name == "builderGenerator") && x.Tok == token.ASSIGN {
							out = append(out, "assignReal")
						}
					}
				case *ast.CallExpr:
					switch fun := x.Fun.(type) {
					case *ast.Ident:
						switch fun.Name {
						case "recover", "panic":
							out = append(out, fun.Name)
						case "iterator", "builderGenerator":
							out = append(out, "callReal")
						}
					case *ast.SelectorExpr:
						recv := src(fset, fun.X)
						switch {
						case recv == "wg":
							out = append(out, "wg."+fun.Sel.Name)
						case recv == "_this.iteratorFuncs" || recv == "_this.builderGenerators":
							out = append(out, "cache."+fun.Sel.Name)
						case recv == "_this" && (fun.Sel.Name == "getDefaultIteratorForType" || fun.Sel.Name == "defaultBuilderGeneratorForType"):
							out = append(out, "generate")
						}
					}
				}
				return true
			})
		}
	}
	json.NewEncoder(os.Stdout).Encode(out)
}

// resetfacts: fields of a struct type and the fields a reset method assigns (directly, through a
// method call on the field, or in a same-receiver helper it calls).
func cmdResetFacts(repo, dir, typ, fn string) {
	fset, files := parseDir(filepath.Join(repo, dir))
	fields := []string{}
	methods := map[string]*ast.FuncDecl{}
	for _, f := range files {
		for _, d := range f.Decls {
			switch x := d.(type) {
			case *ast.GenDecl:
				for _, sp := range x.Specs {
					ts, ok := sp.(*ast.TypeSpec)
					if !ok || ts.Name.Name != typ {
						continue
					}
					if st, ok := ts.Type.(*ast.StructType); ok {
						for _, fl := range st.Fields.List {
							if len(fl.Names) == 0 {
								fields = append(fields, src(fset, fl.Type))
							}
							for _, nm := range fl.Names {
								fields = append(fields, nm.Name)
							}
						}
					}
				}
			case *ast.FuncDecl:
				if x.Recv != nil && len(x.Recv.List) == 1 && strings.Contains(src(fset, x.Recv.List[0].Type), typ) {
					methods[x.Name.Name] = x
				}
			}
		}
	}
	assigned := map[string]bool{}
	seen := map[string]bool{}
	var visit func(name string)
	visit = func(name string) {
		fd := methods[name]
		if fd == nil || fd.Body == nil || seen[name] {
			return
		}
		seen[name] = true
		ast.Inspect(fd.Body, func(n ast.Node) bool {
			switch x := n.(type) {
			case *ast.AssignStmt:
				for _, l := range x.Lhs {
					if se, ok := l.(*ast.SelectorExpr); ok && src(fset, se.X) == "_this" {
						assigned[se.Sel.Name] = true
					}
				}
			case *ast.CallExpr:
				if se, ok := x.Fun.(*ast.SelectorExpr); ok {
					if inner, ok := se.X.(*ast.SelectorExpr); ok && src(fset, inner.X) == "_this" {
						assigned[inner.Sel.Name] = true // _this.f.Method(...)
					}
					if src(fset, se.X) == "_this" {
						visit(se.Sel.Name)
					}
				}
			}
			return true
		})
	}
	visit(fn)
	var as []string
	for _, f := range fields {
		if assigned[f] {
			as = append(as, f)
		}
	}
	json.NewEncoder(os.Stdout).Encode(map[string][]string{"fields": fields, "assigned": as})
}

// entrypoints: every exported function or method of the given packages that returns an error:
// does it install a deferred recover, does it index or slice a parameter without first
// returning on len(param) == 0, and which functions does it call.
func cmdEntryPoints(repo string, dirs []string) {
	type ep struct {
		Pkg            string   `json:"pkg"`
		Recv           string   `json:"recv"`
		Name           string   `json:"name"`
		HasRecover     bool     `json:"hasRecover"`
		UnguardedIndex bool     `json:"unguardedIndex"`
		Callees        []string `json:"callees"`
	}
	var out []ep
	for _, dir := range dirs {
		fset, files := parseDir(filepath.Join(repo, dir))
		for _, f := range files {
			for _, d := range f.Decls {
				fd, ok := d.(*ast.FuncDecl)
				if !ok || fd.Body == nil || !fd.Name.IsExported() || fd.Type.Results == nil {
					continue
				}
				returnsErr := false
				for _, r := range fd.Type.Results.List {
					if src(fset, r.Type) == "error" {
						returnsErr = true
					}
				}
				if !returnsErr {
					continue
				}
				if strings.HasPrefix(fd.Name.Name, "Verif") {
					continue // build-tagged verification hooks
				}
				e := ep{Pkg: dir, Name: fd.Name.Name}
				if fd.Recv != nil && len(fd.Recv.List) == 1 {
					e.Recv = strings.TrimPrefix(src(fset, fd.Recv.List[0].Type), "*")
					if r := e.Recv; len(r) > 0 && !ast.IsExported(r) {
						continue
					}
				}
				params := map[string]bool{}
				for _, p := range fd.Type.Params.List {
					for _, n := range p.Names {
						params[n.Name] = true
					}
				}
				// parameters protected by a leading `if len(p) == 0 { return … }`
				protected := map[string]bool{}
				for _, st := range fd.Body.List {
					ifs, ok := st.(*ast.IfStmt)
					if !ok {
						break
					}
					cond := src(fset, ifs.Cond)
					for p := range params {
						if cond == "len("+p+") == 0" {
							if len(ifs.Body.List) > 0 {
								if _, isRet := ifs.Body.List[len(ifs.Body.List)-1].(*ast.ReturnStmt); isRet {
									protected[p] = true
								}
							}
						}
					}
				}
				seen := map[string]bool{}
				ast.Inspect(fd.Body, func(n ast.Node) bool {
					switch x := n.(type) {
					case *ast.DeferStmt:
						if fl, ok := x.Call.Fun.(*ast.FuncLit); ok && strings.Contains(src(fset, fl.Body), "recover()") {
							e.HasRecover = true
						}
					case *ast.IndexExpr:
						if id, ok := x.X.(*ast.Ident); ok && params[id.Name] && !protected[id.Name] {
							e.UnguardedIndex = true
						}
					case *ast.SliceExpr:
						if id, ok := x.X.(*ast.Ident); ok && params[id.Name] && !protected[id.Name] {
							e.UnguardedIndex = true
						}
					case *ast.CallExpr:
						name := ""
						switch fn := x.Fun.(type) {
						case *ast.Ident:
							name = fn.Name
						case *ast.SelectorExpr:
							name = fn.Sel.Name
						}
						if name != "" && name != "recover" && name != "len" && name != "string" && !seen[name] {
							seen[name] = true
							e.Callees = append(e.Callees, name)
						}
					}
					return true
				})
				sort.Strings(e.Callees)
				out = append(out, e)
			}
		}
	}
	sort.Slice(out, func(i, j int) bool {
		return out[i].Pkg+"."+out[i].Recv+"."+out[i].Name < out[j].Pkg+"."+out[j].Recv+"."+out[j].Name
	})
	json.NewEncoder(os.Stdout).Encode(out)
}

func main() {
	if len(os.Args) < 3 {
		fmt.Fprintln(os.Stderr, "usage: extract <cmd> <repo>")
		os.Exit(2)
	}
	switch os.Args[1] {
	case "rules":
		cmdRules(os.Args[2])
	case "switchcases":
		cmdSwitchCases(os.Args[2], os.Args[3], os.Args[4])
	case "funcstmts":
		cmdFuncStmts(os.Args[2], os.Args[3], os.Args[4])
	case "entrypoints":
		cmdEntryPoints(os.Args[2], os.Args[3:])
	case "cacheproto":
		cmdCacheProto(os.Args[2], os.Args[3], os.Args[4])
	case "resetfacts":
		cmdResetFacts(os.Args[2], os.Args[3], os.Args[4], os.Args[5])
	case "bitranges":
		cmdBitRanges(os.Args[2], os.Args[3], os.Args[4])
	default:
		os.Exit(2)
	}
}
